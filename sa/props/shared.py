"""Rules shared by several properties."""

from __future__ import annotations

import ast
from typing import Dict, Optional

from ..kit import (Kit, is_call, key, norm, positive_guard)
from ..index import dotted, names_read
from ..flow import PARAM


def pktsize_positive(k: Kit, rule: str) -> None:
    """Peer-supplied maximum packet size reaches SSHChannel._send_pktsize
    only past a test that rejects values <= 0, applied to the value as
    finally stored (C10.R1 / C08.R4)."""
    rep = k.rep
    sites = 0
    for qual, callee in (
            ('connection.SSHConnection._process_channel_open',
             'process_open'),
            ('connection.SSHConnection._process_channel_open_confirmation',
             'process_open_confirmation')):
        fi = k.func(qual)
        g = k.cfg(fi)
        rd = k.rd(fi)
        calls = k.calls_named(fi, callee)
        if not calls:
            rep.error(rule, key(fi, callee), f'no call to {callee} found')
            continue
        # the channel method must store its 3rd parameter in _send_pktsize
        tgt = k.func(f'channel.SSHChannel.{callee}')
        params = tgt.params
        stores = [v for n, v in k.stores_to(tgt, 'self._send_pktsize')]
        pname = None
        for v in stores:
            if isinstance(v, ast.Name) and v.id in params:
                pname = v.id
        if pname is None:
            rep.error(rule, key(tgt, 'store _send_pktsize'),
                      '_send_pktsize is not stored from a parameter')
            continue
        pos = params.index(pname) - 1      # minus self
        for node, call in calls:
            sites += 1
            if pos >= len(call.args):
                rep.error(rule, key(fi, callee), 'argument not positional')
                continue
            arg = call.args[pos]
            var = dotted(arg)
            if var is None:
                rep.violation(rule, key(fi, f'{callee} pktsize'),
                              f'packet size argument `{norm(arg)}` is not a '
                              'checked variable', k.loc(fi, node))
                continue
            guard = positive_guard(var)
            bad = None
            for d in rd.defs_of(node.id, var):
                start = g.entry if d == PARAM else d
                w = g.guarded_by(node.id, guard, start=start)
                if w is not None:
                    bad = w
            rep.check(bad is None, rule, key(fi, f'{callee} pktsize'),
                      f'`{var}` as finally stored is tested > 0 on every path',
                      f'peer-controlled `{var}` reaches '
                      f'SSHChannel._send_pktsize without a test rejecting '
                      'values <= 0 after its last modification: a zero size '
                      'makes _flush_send_buf emit empty packets forever',
                      k.loc(fi, node), g.describe_path(bad) if bad else None)
    rep.floor(rule, 'pktsize hand-over sites', sites, 2)
    # who may write _send_pktsize
    for fi in k.idx.iter_funcs(['channel', 'connection']):
        if fi.cls is None:
            continue
        for n in ast.walk(fi.node):
            tg = []
            if isinstance(n, ast.Assign):
                tg = n.targets
            elif isinstance(n, (ast.AugAssign, ast.AnnAssign)):
                tg = [n.target]
            for t in tg:
                d = dotted(t)
                if d and d.endswith('._send_pktsize'):
                    okw = fi.qual in ('channel.SSHChannel.__init__',
                                      'channel.SSHChannel.process_open',
                                      'channel.SSHChannel.'
                                      'process_open_confirmation')
                    rep.check(okw, rule, key(fi, 'writes _send_pktsize'),
                              'writer is an open/confirmation handler',
                              '_send_pktsize written outside the open '
                              'handshake (unchecked)', k.loc(fi, n))


def futures_guarded(k: Kit, rule: str, modules=None) -> None:
    """Every set_result / set_exception on a future is dominated by the
    `<future>.cancelled()` (or `.done()`) test being false: completing a
    cancelled future raises InvalidStateError out of the dispatcher."""
    rep = k.rep
    n = 0
    for fi in k.idx.iter_funcs(modules):
        g = None
        for c in ast.walk(fi.node):
            if isinstance(c, ast.Call) and isinstance(c.func, ast.Attribute) \
                    and c.func.attr in ('set_result', 'set_exception'):
                recv = dotted(c.func.value)
                if recv is None:
                    continue
                g = g or k.cfg(fi)
                node = g.node_for(c)
                if node is None:
                    continue
                n += 1

                def val(x, recv=recv):
                    a = x.ast
                    if x.kind == 'atom' and isinstance(a, ast.Call) and \
                            isinstance(a.func, ast.Attribute) and \
                            a.func.attr in ('cancelled', 'done') and \
                            dotted(a.func.value) == recv:
                        return False
                    return None
                w = g.guarded_by(node.id, val)
                rep.check(w is None, rule,
                          key(fi, f'{recv}.{c.func.attr} guarded'),
                          'future completed only if not cancelled',
                          f'`{norm(c)[:60]}` can run on a cancelled future: '
                          'InvalidStateError escapes the dispatcher and the '
                          'other waiters are never completed',
                          k.loc(fi, node), g.describe_path(w) if w else None)
    rep.floor(rule, 'future completion sites', n, 2)


def writer_before_backlog(k: Kit, rule: str) -> None:
    """SSHProcess._create_writer installs the redirect target before it
    flushes the backlog to it: feed_recv_buf() ends by resuming channel
    reading, which synchronously delivers queued packets (and EOF) through
    data_received(); with no writer installed yet they land in the abandoned
    pipe buffer, never reach the target and re-pause the channel for good."""
    rep = k.rep
    fi = k.func('process.SSHProcess._create_writer')
    g = k.cfg(fi)
    feeds = k.calls_named(fi, 'feed_recv_buf', 'self')
    sets = [n.id for n, c in k.calls_named(fi, 'set_writer', 'self')]
    rep.floor(rule, 'backlog flush sites', len(feeds), 1)
    for n, c in feeds:
        w = g.path(g.entry, n.id, blocked_nodes=sets)
        rep.check(bool(sets) and w is None, rule,
                  key(fi, 'target installed before backlog flush'),
                  'set_writer() precedes feed_recv_buf() on every path',
                  'the buffered backlog is flushed (which resumes channel '
                  'reading and re-enters data_received) before the new '
                  'target is installed: data and EOF released by the flush '
                  'bypass the target and the channel stays paused',
                  k.loc(fi, n), g.describe_path(w) if w else None)
    # the same re-entrancy on the way out: the old target is taken out of
    # the table before feeding is resumed, or the released data goes to the
    # writer that was just closed
    cw = k.func('process.SSHProcess.clear_writer')
    g2 = k.cfg(cw)
    dels = [n.id for n in g2.nodes if n.kind == 'stmt' and
            isinstance(n.ast, ast.Delete) and any(
                isinstance(t, ast.Subscript) and
                dotted(t.value) == 'self._writers' for t in n.ast.targets)]
    for n, c in k.calls_named(cw, 'resume_feeding', 'self'):
        w = g2.path(g2.entry, n.id, blocked_nodes=dels)
        rep.check(bool(dels) and w is None, rule,
                  key(cw, 'old target removed before feeding resumes'),
                  'del self._writers[datatype] precedes resume_feeding()',
                  'feeding is resumed (which re-enters data_received) while '
                  'the writer being cleared is still installed: the data '
                  'released goes to the closed writer and is lost, and the '
                  're-redirected process never finishes', k.loc(cw, n))
    # ... and a writer that was cleared while paused may still ask for a
    # resume later: that must not raise
    rf = k.func('process.SSHProcess.resume_feeding')
    g3 = k.cfg(rf)
    for n, c in k.calls_named(rf, 'remove'):
        if dotted(c.func.value) != 'self._paused_write_streams':
            continue
        w = g3.guarded_by(n.id, lambda x: True if x.kind == 'atom' and
                          isinstance(x.ast, ast.Compare) and
                          isinstance(x.ast.ops[0], ast.In) and
                          dotted(x.ast.comparators[0]) ==
                          'self._paused_write_streams' else None)
        rep.check(w is None, rule,
                  key(rf, 'resume tolerates an already resumed stream'),
                  'removal from _paused_write_streams cannot raise',
                  'set.remove() raises KeyError when the stream was already '
                  'resumed on the writer\'s behalf (clear_writer does that): '
                  'the old writer\'s task dies, its queue is never joined '
                  'and process.wait() hangs', k.loc(rf, n))


INBOUND_STATES = {
    # handler: receive states in which the message is legal; after the
    # peer's EOF it sends no more data, but adjusts our send window, makes
    # requests (exit-status) and closes
    '_process_window_adjust': {'open', 'eof_pending', 'eof'},
    '_process_data': {'open'},
    '_process_extended_data': {'open'},
    '_process_eof': {'open'},
    '_process_close': {'open', 'eof_pending', 'eof'},
    '_process_request': {'open', 'eof_pending', 'eof'},
}


def inbound_state_table(k: Kit, rule: str, only=None) -> None:
    """Each inbound channel message handler, evaluated up to its first read
    of the packet for every receive state: accepted exactly in the states of
    INBOUND_STATES, a protocol error in the others."""
    from ..absint import evaluate, Obj, NotEvaluable
    rep = k.rep
    idx = k.idx
    n = 0
    for name, legal in INBOUND_STATES.items():
        if only and name not in only:
            continue
        fi = k.func('channel.SSHChannel.' + name)
        frag = []
        for st in fi.node.body:
            if isinstance(st, ast.Expr) and isinstance(st.value, ast.Constant):
                continue
            frag.append(st)
            if isinstance(st, ast.If) and \
                    'self._recv_state' in names_read(st.test):
                break
        bad = None
        for state in ('open', 'eof_pending', 'eof', 'close_pending',
                      'closed'):
            n += 1
            try:
                o = evaluate(idx, fi.module, frag,
                             {'self._recv_state': state},
                             {'packet': Obj('packet')},
                             lambda a, b, e: Obj('x'))
            except NotEvaluable as exc:
                rep.error(rule, key(fi, 'not-evaluable'), str(exc))
                bad = 'error'
                break
            accepted = o.kind != 'raise'
            if accepted != (state in legal):
                bad = bad or (
                    f'{name[9:].upper()} in receive state {state!r} is '
                    + ('accepted' if accepted else
                       'a protocol error, which disconnects the whole '
                       'connection: after a half-close the first '
                       'WINDOW_ADJUST / request / CLOSE for the still-open '
                       'direction kills every channel and forward on it'))
        if bad == 'error':
            continue
        rep.check(bad is None, rule, key(fi, 'legal receive states'),
                  f'accepted exactly in {sorted(legal)}', str(bad),
                  fi.loc(fi.node))
    rep.floor(rule, 'inbound handler states', n, 5)


MUTATORS = {'append', 'extend', 'insert', 'pop', 'popitem', 'remove', 'clear',
            'update', 'setdefault', 'add', 'discard', 'sort', 'reverse'}


def per_instance_state(k: Kit, rule: str, modules, floor: int) -> None:
    """No per-session table lives in a class attribute: a mutable container
    that methods mutate through `self.X` is (re)bound in a constructor of
    the class or of a base class, so that two instances never share it."""
    rep = k.rep
    idx = k.idx
    n = 0
    for ms in modules:
        mod = idx.module(ms)
        for cls in mod.classes.values():
            mutated: Dict[str, ast.AST] = {}
            for f in cls.methods.values():
                for x in ast.walk(f.node):
                    tgt = None
                    if isinstance(x, (ast.Assign, ast.AugAssign, ast.Delete)):
                        ts = x.targets if not isinstance(x, ast.AugAssign) \
                            else [x.target]
                        for t in ts:
                            if isinstance(t, ast.Subscript):
                                tgt = dotted(t.value)
                                if tgt and tgt.startswith('self.'):
                                    mutated.setdefault(tgt[5:], x)
                    elif isinstance(x, ast.Call) and \
                            isinstance(x.func, ast.Attribute) and \
                            x.func.attr in MUTATORS:
                        tgt = dotted(x.func.value)
                        if tgt and tgt.startswith('self.') and \
                                tgt.count('.') == 1:
                            mutated.setdefault(tgt[5:], x)
            for name, site in sorted(mutated.items()):
                n += 1
                # where does the container come from?
                bound = False
                cls_level = None
                for c in idx.mro(cls):
                    init = c.methods.get('__init__')
                    if init is not None and \
                            k.stores_to(init, 'self.' + name):
                        bound = True
                    for st in c.node.body:
                        tg = st.targets[0] if isinstance(st, ast.Assign) \
                            else st.target if isinstance(st, ast.AnnAssign) \
                            else None
                        val = getattr(st, 'value', None)
                        if isinstance(tg, ast.Name) and tg.id == name and \
                                val is not None and cls_level is None:
                            cls_level = st
                if cls_level is None or bound:
                    continue
                rep.violation(rule, f'{cls.qual}|{name} is per instance',
                              f'{cls.qual} mutates self.{name} '
                              f'(`{norm(site)[:60]}`) but the container is '
                              'created once at class level '
                              f'(line {cls_level.lineno}) and never bound in '
                              'a constructor: every instance in the process '
                              'shares it - a reply is handed to another '
                              'session\'s waiter',
                              f'{mod.relpath}:{cls_level.lineno}')
    rep.ok(rule, 'mutated containers are instance state',
           f'{n} (class, field) pairs mutated through self: none is a bare '
           'class attribute')
    rep.floor(rule, 'mutated self containers', n, floor)


def communicate_resumes(k: Kit, rule: str) -> None:
    """SSHClientProcess.communicate lifts the buffer limit, then resumes."""
    rep = k.rep
    fi = k.func('process.SSHClientProcess.communicate')
    g = k.cfg(fi)
    lifts = [n for n, v in k.stores_to(fi, 'self._limit')
             if isinstance(v, ast.Constant) and v.value == 0]
    res = [n for n, c in k.calls_named(fi, '_maybe_resume_reading', 'self')]
    rep.floor(rule, 'limit lifted in communicate', len(lifts), 1)
    for lf in lifts:
        w = g.path(lf.id, g.exit, blocked_nodes=[r.id for r in res],
                   follow_exc=False)
        rep.check(bool(res) and w is None, rule,
                  key(fi, 'resume after the limit is lifted'),
                  'every path from `self._limit = 0` to the end passes '
                  '_maybe_resume_reading()',
                  'communicate() / wait() lift the buffer limit without '
                  're-running the resume test afterwards: a stream that had '
                  'already paused the channel (one window buffered before '
                  'the call) stays paused, no WINDOW_ADJUST is sent, the '
                  'peer\'s CLOSE is never processed and wait() hangs',
                  k.loc(fi, lf), g.describe_path(w) if w else None)
    for r in res:
        w = g.must_pass([lf.id for lf in lifts], dst=r.id)
        rep.check(w is None, rule, key(fi, 'limit lifted before the resume '
                                       'test'),
                  'the resume test sees the lifted limit',
                  'the resume test runs while the old limit is still set',
                  k.loc(fi, r), g.describe_path(w) if w else None)


def water_mark_table(k: Kit, rule: str) -> None:
    """SSHChannel._pause_resume_writing over buffer lengths around the marks."""
    from ..absint import evaluate, Obj, NotEvaluable
    rep = k.rep
    idx = k.idx
    fi = k.func('channel.SSHChannel._pause_resume_writing')
    body = [st for st in fi.node.body if not (
        isinstance(st, ast.Expr) and isinstance(st.value, ast.Constant))]
    bad = None
    n = 0
    for low, high in ((0, 0), (0, 3), (10, 40)):
        for paused in (False, True):
            for blen in sorted({0, 1, low, low + 1, max(low - 1, 0), high,
                                high + 1}):
                n += 1
                try:
                    o = evaluate(idx, fi.module, body,
                                 {'self._send_paused': paused,
                                  'self._send_buf_len': blen,
                                  'self._send_low_water': low,
                                  'self._send_high_water': high,
                                  'self._session': Obj('S')}, {},
                                 lambda a, b, c: Obj('x'))
                except NotEvaluable as exc:
                    rep.error(rule, key(fi, 'not-evaluable'), str(exc))
                    return
                resumed = bool(o.called('self._session.resume_writing'))
                pausedn = bool(o.called('self._session.pause_writing'))
                want_res = paused and blen <= low
                want_pau = (not paused) and blen > high
                if (resumed, pausedn) != (want_res, want_pau) and bad is None:
                    bad = (f'low={low} high={high} paused={paused} buffered='
                           f'{blen}: resume={resumed} pause={pausedn}, '
                           f'expected resume={want_res} pause={want_pau}' +
                           (' - with a low-water mark of 0 '
                            '(set_write_buffer_limits(0)) a writer paused by '
                            'back-pressure is never resumed once the buffer '
                            'has drained: drain() hangs' if want_res else ''))
    rep.count('eval.water_mark_states', n)
    rep.check(bad is None, rule, key(fi, 'water mark table'),
              f'{n} states: resume iff paused and buffered <= low, pause iff '
              'not paused and buffered > high', str(bad), fi.loc(fi.node))


def share(k: Kit, rule: str, text: str, fn, keep=None, floor: int = 1,
          args: tuple = ()) -> None:
    """Run another property's rule function under this property's rule id
    (optionally keeping only the obligations whose key satisfies `keep`)."""
    rep = k.rep
    rep.rule(rule, text)
    before = len(rep.obligations)
    fn(k, *args)
    if keep is not None:
        kept = [o for o in rep.obligations[before:] if keep(o.key)]
        del rep.obligations[before:]
        rep.obligations.extend(kept)
    rep.floor(rule, 'shared rows', len(rep.obligations) - before, floor)
    for o in rep.obligations[before:]:
        o.rule = rule
