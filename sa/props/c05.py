"""C05 Access is granted exactly when a credential check succeeded.

R1 who may say success / who may set the authenticated state
R2 every send_success() is dominated by its validator(s)
R3 what is verified: session id + request prefix, key from the same request
R4 request sequencing table of _process_userauth_request; single source of
   the user name; previous attempt cancelled
R5 restrictions of the accepted credential dominate privileged actions
"""

from __future__ import annotations

import ast
from typing import Any, Dict, List, Optional, Set, Tuple

from ..kit import (Kit, is_call, key, norm, atom_truthy_of, any_atom,
                   atom_call_true)
from ..index import dotted, names_read, walk_shallow, unparse, AnalysisError
from ..flow import expr_sources, depends_on, PARAM
from ..absint import evaluate, product, Obj, _Raise, NotEvaluable
from ..cfg import Node

CONN = 'connection.SSHConnection.'
SRV = 'connection.SSHServerConnection.'

NOT_DECIDED = [
    'interleavings of several in-flight asynchronous validators (needs a '
    'scheduler model)',
    'that a valid credential is admitted (liveness); agent signing',
    'what the application callbacks (validate_password, ...) decide',
]


def awaited(e: ast.AST) -> ast.AST:
    return e.value if isinstance(e, ast.Await) else e


def r1(k: Kit) -> None:
    rep = k.rep
    rep.rule('C05.R1', 'send_userauth_success is called only from '
             'ServerAuth.send_success and the no-auth-required branch of '
             '_finish_userauth; _auth_complete = True is stored only there '
             'and in the client\'s success handler')
    callers = {f.qual for f, c in k.idx.callers_of('send_userauth_success')}
    allowed = {'auth.ServerAuth.send_success', CONN + '_finish_userauth'}
    rep.check(callers <= allowed and bool(callers), 'C05.R1',
              'who-may-call send_userauth_success',
              f'callers: {sorted(callers)}',
              f'send_userauth_success also called from '
              f'{sorted(callers - allowed)}')
    # the _finish_userauth call is on the begin_auth()-is-falsy branch
    fu = k.func(CONN + '_finish_userauth')
    g = k.cfg(fu)
    rd = k.rd(fu)
    for node, c in k.calls_named(fu, 'send_userauth_success'):
        def noauth(n: Node) -> Optional[bool]:
            if n.kind != 'atom':
                return None
            d = dotted(n.ast)
            if d:
                leaves, free = expr_sources(g, rd, n.id, n.ast)
                if any(is_call(awaited(l), 'begin_auth') or
                       any(is_call(x, 'begin_auth') for x in walk_shallow(l))
                       for l in leaves):
                    return False
            return None
        w = g.guarded_by(node.id, noauth)
        w2 = g.guarded_by(node.id, atom_truthy_of('begin_auth'))
        rep.check(w is None and w2 is None, 'C05.R1',
                  key(fu, 'success without auth'),
                  'only when the application\'s begin_auth() said no '
                  'authentication is required for this (new) user',
                  'success can be sent from _finish_userauth without '
                  'begin_auth() having returned False', k.loc(fu, node),
                  g.describe_path(w or w2) if (w or w2) else None)
    n = 0
    for f in k.idx.iter_funcs():
        for x in walk_shallow(f.node):
            if isinstance(x, ast.Assign) and any(
                    (dotted(t) or '').endswith('._auth_complete')
                    for t in x.targets) and \
                    isinstance(x.value, ast.Constant) and x.value.value is True:
                n += 1
                rep.check(f.qual in (CONN + 'send_userauth_success',
                                     CONN + '_process_userauth_success'),
                          'C05.R1', key(f, 'store _auth_complete'),
                          'authenticated state set by the success functions',
                          'authenticated state set elsewhere', f.loc(x))
    rep.floor('C05.R1', '_auth_complete stores', n, 2)
    # in send_userauth_success the flag is set on every normal path and
    # only there the deferred (post-auth) packets are released
    ss = k.func(CONN + 'send_userauth_success')
    g = k.cfg(ss)
    st = [n.id for n, v in k.stores_to(ss, 'self._auth_complete')]
    snd = [n for n, c in k.calls_named(ss, 'send_packet', 'self')
           if c.args and dotted(c.args[0]) == 'MSG_USERAUTH_SUCCESS']
    rep.check(bool(st) and bool(snd), 'C05.R1', key(ss, 'sends and sets'),
              'USERAUTH_SUCCESS sent and state set', 'missing send or store',
              ss.loc(ss.node))


# validators whose truthy result legitimises success, per auth class
VALIDATORS = {'validate_public_key', 'validate_password', 'change_password',
              'validate_host_based_auth', 'validate_gss_principal',
              'get_kbdint_challenge', 'validate_kbdint_response'}


def validator_atom(k: Kit, fi):
    g = k.cfg(fi)
    rd = k.rd(fi)

    def val(n: Node) -> Optional[bool]:
        if n.kind != 'atom' or n.ast is None:
            return None
        a = awaited(n.ast)
        if isinstance(a, ast.Call) and isinstance(a.func, ast.Attribute) and \
                a.func.attr in VALIDATORS:
            return True
        d = dotted(n.ast)
        if d:
            leaves, free = expr_sources(g, rd, n.id, n.ast)
            if leaves and all(
                    isinstance(awaited(l), ast.Call) and
                    isinstance(awaited(l).func, ast.Attribute) and
                    awaited(l).func.attr in VALIDATORS for l in leaves) \
                    and not free:
                return True
        return None
    return val


def r2(k: Kit) -> None:
    rep = k.rep
    rep.rule('C05.R2', 'every send_success() in a ServerAuth subclass is '
             'reachable only through the truthy edge of its validator, plus '
             'the method-specific conjuncts (signature present; GSS context '
             'complete and MIC verified; challenge result not a prompt list)')
    base = k.idx.cls('auth.ServerAuth')
    sites = 0
    for c in k.idx.all_subclasses(base):
        for mname, fi in sorted(c.methods.items()):
            for node, call in k.calls_named(fi, 'send_success', 'self'):
                sites += 1
                g = k.cfg(fi)
                if c.name == '_ServerKbdIntAuth' and mname == '_send_challenge':
                    _kbdint(k, c, fi, node)
                    continue
                if c.name == '_ServerGSSMICAuth' and mname == '_finish':
                    _gssmic(k, c, fi, node)
                w = g.guarded_by(node.id, validator_atom(k, fi))
                rep.check(w is None, 'C05.R2',
                          key(fi, 'success needs validator'),
                          'success dominated by a truthy validator result',
                          f'{fi.qual} can send USERAUTH_SUCCESS on a path '
                          'where no credential validator returned true',
                          k.loc(fi, node), g.describe_path(w) if w else None)
                extra: List[Tuple[str, Any]] = []
                if c.name == '_ServerPublicKeyAuth':
                    extra.append(('signature present',
                                  atom_truthy_of('sig_present')))
                if c.name == '_ServerGSSKexAuth':
                    extra.append(('GSS context complete',
                                  atom_truthy_of('self._gss.complete')))
                    extra.append(('MIC verified',
                                  atom_call_true('verify', 'self._gss')))
                for what, atom in extra:
                    w = g.guarded_by(node.id, atom)
                    rep.check(w is None, 'C05.R2', key(fi, what),
                              f'success also requires: {what}',
                              f'{fi.qual} can send success without: {what}',
                              k.loc(fi, node),
                              g.describe_path(w) if w else None)
    rep.floor('C05.R2', 'send_success sites', sites, 6)
    # PK_OK (no signature) must never be success: in the public key class
    # the only other reply on the validator-true edge is PK_OK
    pk = k.func('auth._ServerPublicKeyAuth._start')
    g = k.cfg(pk)
    rd = k.rd(pk)
    # msg is only non-empty when a signature is present
    for n, v in k.stores_to(pk, 'msg'):
        if is_call(v, 'get_consumed_payload'):
            w = g.guarded_by(n.id, atom_truthy_of('sig_present'))
            rep.check(w is None, 'C05.R2', key(pk, 'msg only with signature'),
                      'request data captured only when a signature follows',
                      'signed data captured without signature flag',
                      k.loc(pk, n))


def _kbdint(k: Kit, cls, fi, node: Node) -> None:
    rep = k.rep
    g = k.cfg(fi)
    w = g.guarded_by(node.id, atom_truthy_of('challenge'))

    def not_prompt(n: Node) -> Optional[bool]:
        if n.kind == 'atom' and is_call(n.ast, 'isinstance') and \
                dotted(n.ast.args[0]) == 'challenge':
            return False
        return None
    w2 = g.guarded_by(node.id, not_prompt)
    rep.check(w is None and w2 is None, 'C05.R2',
              key(fi, 'success needs validator'),
              'success only for a truthy, non-prompt challenge result',
              'keyboard-interactive success not conditioned on the '
              'validator result', k.loc(fi, node),
              g.describe_path(w or w2) if (w or w2) else None)
    # every caller passes a validator result
    for cf, cc in k.idx.callers_of('_send_challenge', ['auth']):
        cg = k.cfg(cf)
        crd = k.rd(cf)
        cn = cg.node_for(cc)
        arg = cc.args[0] if cc.args else None
        okc = False
        if arg is not None and cn is not None:
            leaves, free = expr_sources(cg, crd, cn.id, arg)
            okc = bool(leaves) and not free and all(
                isinstance(awaited(l), ast.Call) and
                isinstance(awaited(l).func, ast.Attribute) and
                awaited(l).func.attr in ('get_kbdint_challenge',
                                         'validate_kbdint_response')
                for l in leaves)
        rep.check(okc, 'C05.R2', key(cf, 'challenge source'),
                  'challenge value is the application validator\'s result',
                  f'{cf.qual} passes a value to _send_challenge that is not '
                  'the validator result', cf.loc(cc))


def _gssmic(k: Kit, cls, fi, node: Node) -> None:
    """_finish is started only after exchange-complete (no integrity) or a
    verified MIC."""
    rep = k.rep
    for cf, cc in k.idx.callers_of('_finish', ['auth']):
        if cf.cls is not cls:
            continue
        g = k.cfg(cf)
        cn = g.node_for(cc)
        if cn is None:
            continue
        w = g.guarded_by(cn.id, atom_truthy_of('self._gss.complete'))
        rep.check(w is None, 'C05.R2', key(cf, 'finish needs complete ctx'),
                  'GSS completion only with a completed context',
                  'GSS auth finishes with an incomplete context',
                  cf.loc(cc))
        if cf.name == '_process_mic':
            w = g.guarded_by(cn.id, atom_call_true('verify', 'self._gss'))
            rep.check(w is None, 'C05.R2', key(cf, 'MIC verified'),
                      'MIC verified before finishing',
                      'GSS MIC not verified', cf.loc(cc))
        if cf.name == '_process_exchange_complete':
            w = g.guarded_by(cn.id, lambda n: False if n.kind == 'atom' and
                             dotted(n.ast) == 'self._gss.provides_integrity'
                             else None)
            rep.check(w is None, 'C05.R2', key(cf, 'no-MIC only w/o integrity'),
                      'MIC-less completion only when the mechanism has no '
                      'integrity', 'exchange-complete accepted although a '
                      'MIC is required', cf.loc(cc))


def r3(k: Kit) -> None:
    rep = k.rep
    rep.rule('C05.R3', 'a truthy validate_public_key / '
             'validate_host_based_auth result with request data present is '
             'key.verify(String(session_id) + msg, signature); True without '
             'verification only when no request data was captured; msg is '
             'the consumed payload taken before the signature is read; the '
             'key is validated from the same key_data for the same user')
    for qual in (SRV + 'validate_public_key', SRV + 'validate_host_based_auth'):
        fi = k.func(qual)
        g = k.cfg(fi)
        rd = k.rd(fi)
        vsites = [(n, c) for n, c in k.calls_named(fi, 'verify')
                  if len(c.args) == 2]
        rep.check(len(vsites) >= 1, 'C05.R3', key(fi, 'has verify'),
                  'contains the signature verification',
                  'no signature verification found', fi.loc(fi.node))
        for vn, lf in vsites:
            data, sig = lf.args
            dd = depends_on(g, rd, vn.id, data)
            dleaves, _f = expr_sources(g, rd, vn.id, data)
            okd = {'self._session_id', 'msg'} <= dd and any(
                is_call(x, 'String') and x.args and
                dotted(x.args[0]) == 'self._session_id'
                for lf2 in dleaves for x in walk_shallow(lf2))
            rep.check(okd, 'C05.R3', key(fi, 'verified bytes'),
                      'verified over String(session id) + request',
                      'signature not verified over the session identifier '
                      'and the request prefix', k.loc(fi, vn))
            rep.check(dotted(sig) == 'signature', 'C05.R3',
                      key(fi, 'signature arg'),
                      'the request\'s signature is what is verified',
                      'verified signature is not the request\'s',
                      k.loc(fi, vn))
            kd = depends_on(g, rd, vn.id, lf.func.value)
            rep.check('key_data' in kd, 'C05.R3', key(fi, 'key source'),
                      'key comes from validating this request\'s key_data',
                      'verification key does not derive from the request\'s '
                      'key_data', k.loc(fi, vn))
        vatom = atom_call_true('verify')
        for n in g.nodes:
            if n.kind != 'return' or n.ast.value is None:
                continue
            v = n.ast.value
            if isinstance(v, ast.Constant) and v.value is False:
                continue
            leaves, free = expr_sources(g, rd, n.id, v)
            if leaves and all(is_call(l, 'verify') or
                              (isinstance(l, ast.Constant) and
                               l.value is False) for l in leaves) and not free:
                rep.ok('C05.R3', key(fi, 'return ' + norm(v)),
                       'result is the verification result', k.loc(fi, n))
                continue
            # the verdict collected in a variable: each assignment of it
            # is a verification result, False, or - for a key query only -
            # True
            if isinstance(v, ast.Name) and leaves and not free and all(
                    is_call(l, 'verify') or (isinstance(l, ast.Constant) and
                                             l.value in (False, True))
                    for l in leaves) and fi.name == 'validate_public_key':
                bad_def = None
                for d in g.nodes:
                    a = d.ast
                    if d.kind == 'stmt' and isinstance(a, ast.Assign) and \
                            dotted(a.targets[0]) == v.id and \
                            isinstance(a.value, ast.Constant) and \
                            a.value.value is True:
                        w3 = g.guarded_by(d.id, lambda x: False if
                                          x.kind == 'atom' and
                                          dotted(x.ast) == 'msg' else None)
                        if w3 is not None:
                            bad_def = (d, w3)
                rep.check(bad_def is None, 'C05.R3',
                          key(fi, 'return ' + norm(v)),
                          'the verdict is a verification result, False, or '
                          'True for a key query (no signed data)',
                          'the verdict can be True although request data is '
                          'present and was not verified',
                          k.loc(fi, bad_def[0] if bad_def else n),
                          g.describe_path(bad_def[1]) if bad_def else None)
                continue
            w = g.guarded_by(n.id, vatom)
            if w is None:
                rep.ok('C05.R3', key(fi, 'return ' + norm(v)),
                       'returned only after a successful verification',
                       k.loc(fi, n))
                continue
            if isinstance(v, ast.Constant) and v.value is True and \
                    fi.name == 'validate_public_key':
                w2 = g.guarded_by(n.id, lambda x: False if x.kind == 'atom'
                                  and dotted(x.ast) == 'msg' else None)
                rep.check(w2 is None, 'C05.R3', key(fi, 'return True'),
                          'unverified True only when no signed data exists '
                          '(key query)',
                          'returns True without verifying although request '
                          'data is present (e.g. empty signature)',
                          k.loc(fi, n), g.describe_path(w2) if w2 else None)
                continue
            rep.violation('C05.R3', key(fi, 'return ' + norm(v)),
                          f'`return {norm(v)}` is reachable without a '
                          'successful signature verification', k.loc(fi, n),
                          g.describe_path(w))
    # request prefix captured before the signature is parsed
    for qual in ('auth._ServerPublicKeyAuth._start',
                 'auth._ServerHostBasedAuth._start'):
        fi = k.func(qual)
        g = k.cfg(fi)
        rd = k.rd(fi)
        msgdefs = [n for n, v in k.stores_to(fi, 'msg')
                   if is_call(v, 'get_consumed_payload')]
        sigdefs = [n for n, v in k.stores_to(fi, 'signature')
                   if is_call(v, 'get_string')]
        rep.check(len(msgdefs) == 1 and len(sigdefs) == 1, 'C05.R3',
                  key(fi, 'capture sites'), 'one capture, one signature read',
                  'request capture / signature read not found',
                  fi.loc(fi.node))
        if len(msgdefs) == 1 and len(sigdefs) == 1:
            m, s = msgdefs[0], sigdefs[0]
            w = g.path(g.entry, s.id, blocked_nodes=[m.id])
            rep.check(w is None, 'C05.R3', key(fi, 'capture before signature'),
                      'request captured before the signature is read',
                      'the signed-data capture happens after the signature '
                      'was consumed (signature would cover itself)',
                      k.loc(fi, s))
            # everything else parsed from the packet precedes the capture
            later = []
            for n in g.nodes:
                if n.id in (m.id, s.id):
                    continue
                for c in g.calls_at(n):
                    if isinstance(c.func, ast.Attribute) and \
                            c.func.attr.startswith('get_') and \
                            dotted(c.func.value) == 'packet' and \
                            g.path(m.id, n.id):
                        later.append(n)
            rep.check(not later, 'C05.R3', key(fi, 'fields before capture'),
                      'all request fields are parsed before the capture',
                      'a request field is parsed after the signed-data '
                      'capture and is therefore not covered by the signature',
                      k.loc(fi, later[0]) if later else '')
        # the validator gets msg and signature of this request
        for node, c in k.call_nodes(fi, lambda c: is_call(
                c, 'validate_public_key') or is_call(
                    c, 'validate_host_based_auth')):
            names = [dotted(a) for a in c.args]
            rep.check('msg' in names and 'signature' in names and
                      'key_data' in names and names[0] == 'self._username',
                      'C05.R3', key(fi, 'validator args'),
                      'validator receives this request\'s user, key, data '
                      'and signature', f'validator called with {names}',
                      k.loc(fi, node))


def r4(k: Kit) -> None:
    rep = k.rep
    idx = k.idx
    rep.rule('C05.R4', '_process_userauth_request: client ⇒ error; '
             'authenticated ∧ later traffic seen ⇒ error; authenticated ⇒ '
             'ignored; otherwise one _finish_userauth task with begin_auth '
             'iff the user name changed; the user name used for the decision '
             'and for success is the single field _username; the previous '
             'attempt is cancelled before a new one is installed')
    fi = k.func(CONN + '_process_userauth_request')
    space = {'role': ['client', 'server'], 'complete': [False, True],
             'final': [False, True], 'same_user': [False, True],
             'service_ok': [True, False], 'long': [False, True],
             'auth': [None, 'AUTH']}
    rows: Dict[str, int] = {}
    bad: Dict[str, str] = {}
    n_states = 0
    for s in product(space):
        n_states += 1
        strings = [b'x' * 2000 if s['long'] else b'alice',
                   b'ssh-connection' if s['service_ok'] else b'other',
                   b'password']

        def on_call(name, args, env, s=s, strings=strings):
            if name == 'packet.get_string':
                return strings.pop(0) if strings else b''
            if name == 'len':
                return NotImplemented
            if name.endswith('.decode'):
                return 'alice'
            if name == 'saslprep':
                return args[0]
            if name == 'self.is_client':
                return s['role'] == 'client'
            if name == 'self.is_server':
                return s['role'] == 'server'
            if name == 'self._finish_userauth':
                return Obj('CORO')
            return Obj('ret')
        val = {'self._auth_complete': s['complete'],
               'self._auth_final': s['final'],
               'self._username': 'alice' if s['same_user'] else 'bob',
               'self._auth': Obj('AUTH') if s['auth'] else None,
               'self._userauth_task': None}
        try:
            o = evaluate(idx, fi.module, fi.node.body, val,
                         {'packet': Obj('packet')}, on_call)
        except NotEvaluable as exc:
            rep.error('C05.R4', 'not-evaluable', str(exc))
            return
        tasks = [a for n, a in o.calls if n == 'self.create_task']
        fin = [a for n, a in o.calls if n == 'self._finish_userauth']

        def row(name, cond, req, why):
            if cond:
                rows[name] = rows.get(name, 0) + 1
                if not req and name not in bad:
                    bad[name] = f'{why}; state {s}; outcome {o}'
        pre_ok = s['service_ok'] and not s['long']
        row('too long user name rejected', s['long'],
            o.kind == 'raise' and not tasks, 'over-long user name accepted')
        row('wrong service rejected', not s['service_ok'] and not s['long'],
            o.kind == 'raise' and not tasks, 'wrong service accepted')
        row('client rejects request', pre_ok and s['role'] == 'client',
            o.kind == 'raise' and o.value == 'ProtocolError' and not tasks,
            'a client processed a USERAUTH_REQUEST')
        row('late request after success is fatal', pre_ok and
            s['role'] == 'server' and s['complete'] and s['final'],
            o.kind == 'raise' and not tasks,
            'auth request after authenticated traffic not fatal')
        row('request after success ignored', pre_ok and
            s['role'] == 'server' and s['complete'] and not s['final'],
            o.kind != 'raise' and not tasks,
            'auth request after success starts a new attempt')
        row('fresh request starts one attempt', pre_ok and
            s['role'] == 'server' and not s['complete'],
            len(tasks) == 1 and len(fin) == 1 and
            [a for a in fin[0] if isinstance(a, bool)][:1] ==
            [not s['same_user']],
            'not exactly one attempt with begin_auth == (user changed)')
        names = [nm for nm, a in o.calls]
        row('auth in progress abandoned before the new attempt', pre_ok and
            s['role'] == 'server' and not s['complete'] and bool(s['auth']),
            ('self._auth', None) in o.stores and
            any(nm.endswith('.cancel') for nm in names) and
            'self.create_task' in names and
            [i for i, nm in enumerate(names) if nm.endswith('.cancel')][0] <
            names.index('self.create_task'),
            'the auth object in progress is neither cancelled nor cleared '
            'before the task for the new request is created (= C05.R12)')
        row('user switch recorded', pre_ok and s['role'] == 'server' and
            not s['complete'] and not s['same_user'],
            ('self._username', 'alice') in o.stores,
            'new user name not recorded before the attempt')
    rep.count('eval.userauth_states', n_states)
    for name in sorted(rows):
        rep.check(name not in bad, 'C05.R4', key(fi, 'row: ' + name),
                  f'holds in all {rows[name]} states', bad.get(name, ''),
                  fi.loc(fi.node))
    rep.floor('C05.R4', 'rows exercised', len(rows), 7)
    # single source of the user name
    fu = k.func(CONN + '_finish_userauth')
    g = k.cfg(fu)
    for tail, pos in (('begin_auth', 0), ('lookup_server_auth', 1)):
        sites = k.calls_named(fu, tail)
        rep.floor('C05.R4', f'{tail} sites', len(sites), 1)
        for node, c in sites:
            arg = c.args[pos] if len(c.args) > pos else None
            rep.check(arg is not None and dotted(arg) in ('self._username',
                                                          'username'),
                      'C05.R4', key(fu, f'{tail} user'),
                      'decision made for the connection\'s current user name',
                      f'{tail} is given `{norm(arg) if arg is not None else "?"}`'
                      ' instead of self._username: the credential check and '
                      'the reported identity can differ', k.loc(fu, node))
    ss = k.func(CONN + 'send_userauth_success')
    okn = any(kw.arg == 'username' and dotted(kw.value) == 'self._username'
              for c in walk_shallow(ss.node) if isinstance(c, ast.Call)
              for kw in c.keywords)
    rep.check(okn, 'C05.R4', key(ss, 'reported user'),
              'reported identity is self._username',
              'reported identity is not self._username', ss.loc(ss.node))
    # auth object's user name is the constructor argument from
    # lookup_server_auth(conn, self._username, ...)
    # previous attempt cancelled
    stores = [n for n, v in k.stores_to(fu, 'self._auth')
              if v is not None and not (isinstance(v, ast.Constant) and
                                        v.value is None)]
    rep.floor('C05.R4', '_auth install sites', len(stores), 1)
    for n in stores:
        cancels = [x.id for x, c in k.calls_named(fu, 'cancel', 'self._auth')]

        def noauth(x: Node) -> Optional[bool]:
            return False if x.kind == 'atom' and dotted(x.ast) == 'self._auth' \
                else None
        w = g.guarded_by(n.id, noauth, extra_blocked=cancels)
        rep.check(bool(cancels) and w is None, 'C05.R4',
                  key(fu, 'cancel previous'),
                  'an outstanding attempt is cancelled before replacement',
                  'a new auth attempt replaces the old one without '
                  'cancelling it (two validators can complete)',
                  k.loc(fu, n), g.describe_path(w) if w else None)


PERM_SITES = [
    # (function, permission, privileged call tails)
    (SRV + '_process_direct_tcpip_open', 'port-forwarding',
     {'connection_requested', 'forward_connection',
      'forward_tunneled_connection'}),
    (SRV + '_process_tcpip_forward_global_request', 'port-forwarding',
     {'server_requested', 'create_task', '_finish_port_forward'}),
    (SRV + '_process_direct_streamlocal_at_openssh_dot_com_open',
     'port-forwarding', {'unix_connection_requested',
                         'forward_unix_connection',
                         'forward_tunneled_unix_connection'}),
    (SRV + '_process_streamlocal_forward_at_openssh_dot_com_global_request',
     'port-forwarding', {'unix_server_requested', 'create_task',
                         '_finish_path_forward'}),
    (SRV + 'attach_x11_listener', 'X11-forwarding',
     {'create_x11_server_listener', 'attach'}),
    (SRV + 'create_agent_listener', 'agent-forwarding',
     {'create_unix_forward_listener'}),
    ('channel.SSHServerChannel._process_pty_req_request', 'pty',
     {'pty_requested'}),
]


def perm_atom(kind: str, perm: str):
    def val(n: Node) -> Optional[bool]:
        a = n.ast
        if n.kind == 'atom' and is_call(a, kind) and a.args and \
                isinstance(a.args[0], ast.Constant) and \
                a.args[0].value == perm:
            return True
        return None
    return val


def r5(k: Kit) -> None:
    rep = k.rep
    rep.rule('C05.R5', 'each privileged action (forwarding ×4, X11, agent, '
             'pty) is dominated by both the authorized_keys and the '
             'certificate permission test; permitopen limits direct-tcpip; '
             'a forced command overrides the requested one and '
             'shell/subsystem; options are captured where the key is '
             'accepted')
    n = 0
    for qual, perm, tails in PERM_SITES:
        fi = k.func(qual)
        g = k.cfg(fi)
        acts = [(node, c) for node, c in k.call_nodes(
            fi, lambda c: (isinstance(c.func, ast.Attribute) and
                           c.func.attr in tails) or
            (isinstance(c.func, ast.Name) and c.func.id in tails))]
        if not acts:
            rep.error('C05.R5', key(fi, 'action'),
                      f'no privileged action {sorted(tails)} found')
            continue
        for node, c in acts:
            for kind in ('check_key_permission',
                         'check_certificate_permission'):
                n += 1
                w = g.guarded_by(node.id, perm_atom(kind, perm))
                rep.check(w is None, 'C05.R5',
                          key(fi, f'{kind}({perm}) before {dotted(c.func)}'),
                          'privileged action dominated by the permission test',
                          f'`{norm(c)[:60]}` is reachable without '
                          f'{kind}({perm!r}) having returned true: a '
                          f'credential restricted with no-{perm} is served',
                          k.loc(fi, node), g.describe_path(w) if w else None)
    rep.floor('C05.R5', 'permission obligations', n, 20)
    # permitopen
    dt = k.func(SRV + '_process_direct_tcpip_open')
    g = k.cfg(dt)
    rd = k.rd(dt)

    def in_permit(n: Node, lab) -> bool:
        a = n.ast
        if n.kind != 'atom':
            return False
        if dotted(a) == 'permitted_opens':
            return lab is False
        if isinstance(a, ast.Compare) and len(a.ops) == 1 and \
                dotted(a.comparators[0]) == 'permitted_opens':
            if isinstance(a.ops[0], ast.NotIn):
                return lab is False
            if isinstance(a.ops[0], ast.In):
                return lab is True
        return False
    src_ok = any(is_call(v, 'get_key_option') and v.args and
                 isinstance(v.args[0], ast.Constant) and
                 v.args[0].value == 'permitopen'
                 for nd, v in k.stores_to(dt, 'permitted_opens')
                 for v in [v.args[1] if is_call(v, 'cast') and
                           len(v.args) > 1 else v])
    for node, c in k.calls_named(dt, 'connection_requested'):
        reach = g.reachable(g.entry, blocked_edge=lambda a, b, lab:
                            in_permit(g.nodes[a], lab))
        rep.check(src_ok and node.id not in reach, 'C05.R5',
                  key(dt, 'permitopen'),
                  'destination outside a non-empty permitopen set is refused',
                  'direct-tcpip reaches the application although the '
                  'destination is not in the credential\'s permitopen set',
                  k.loc(dt, node))
    # forced command
    allowed = {'channel.SSHServerChannel._start_session'}
    for tail in ('exec_requested', 'shell_requested', 'subsystem_requested'):
        for f, c in k.idx.callers_of(tail, ['channel', 'connection']):
            if dotted(c.func.value) in ('self._session',):
                rep.check(f.qual in allowed, 'C05.R5',
                          key(f, f'who-may-call {tail}'),
                          'session start goes through _start_session',
                          f'{tail} called outside _start_session: the forced '
                          'command lookup is bypassed', f.loc(c))
    st = k.func('channel.SSHServerChannel._start_session')
    g = k.cfg(st)
    rd = k.rd(st)
    fdefs = k.stores_to(st, 'forced_command')
    srcs = set()
    for nd, v in fdefs:
        for x in walk_shallow(v) if v is not None else []:
            if isinstance(x, ast.Call) and x.args and \
                    isinstance(x.args[0], ast.Constant):
                srcs.add((x.func.attr if isinstance(x.func, ast.Attribute)
                          else '', x.args[0].value))
    rep.check({('get_certificate_option', 'force-command'),
               ('get_key_option', 'command')} <= srcs, 'C05.R5',
              key(st, 'forced command sources'),
              'forced command read from certificate and authorized_keys',
              f'forced command sources are {sorted(srcs)}', st.loc(st.node))

    def not_forced(n: Node) -> Optional[bool]:
        a = n.ast
        if n.kind == 'atom' and isinstance(a, ast.Compare) and \
                dotted(a.left) == 'forced_command' and len(a.ops) == 1:
            if isinstance(a.ops[0], ast.IsNot):
                return False
            if isinstance(a.ops[0], ast.Is):
                return True
        return None
    # the last `forced_command is not None` test decides
    for tail in ('shell_requested', 'subsystem_requested'):
        for node, c in k.calls_named(st, tail):
            # with a forced command present the node must be unreachable:
            # command is then set, and the `command is not None` arm wins
            forced_nodes = [n for n in g.nodes if not_forced(n) is not None]
            last = forced_nodes[-1] if forced_nodes else None
            okf = False
            if last is not None:
                tb = [b for b, lab in g.succ[last.id] if lab is True]
                # after taking the forced edge, `command` is assigned and
                # only exec_requested may follow
                cmd_set = [n.id for n, v in k.stores_to(st, 'command')
                           if v is not None and dotted(v) == 'forced_command']
                okf = bool(cmd_set) and all(
                    g.path(b, g.exit, blocked_nodes=cmd_set,
                           follow_exc=False) is None for b in tb)
                # and with command set, shell/subsystem are behind
                # `command is not None` False
                w = g.guarded_by(node.id, lambda n: False if n.kind == 'atom'
                                 and isinstance(n.ast, ast.Compare) and
                                 dotted(n.ast.left) == 'command' and
                                 isinstance(n.ast.ops[0], ast.IsNot)
                                 else None)
                okf = okf and w is None
            rep.check(okf, 'C05.R5', key(st, f'forced command beats {tail}'),
                      'a forced command replaces shell/subsystem requests',
                      f'{tail} can run although the credential forces a '
                      'command', k.loc(st, node))
    # option capture sites
    for f in k.idx.iter_funcs(['connection']):
        for x in walk_shallow(f.node):
            if isinstance(x, ast.Assign):
                tgts = [e for t in x.targets for e in (
                    t.elts if isinstance(t, ast.Tuple) else [t])]
                for t in tgts:
                    if dotted(t) in ('self._key_options',
                                     'self._cert_options'):
                        # validate_public_key only puts back what it saved
                        # on entry (table C05.R9 decides when)
                        okc = f.name.startswith('_validate_') or \
                            f.name in ('__init__', 'validate_public_key')
                        rep.check(okc, 'C05.R5',
                                  key(f, 'store ' + dotted(t)),
                                  'restrictions captured where the '
                                  'credential is accepted',
                                  'credential restrictions overwritten '
                                  'outside credential validation',
                                  f.loc(x))


def r6(k: Kit) -> None:
    """One validator in flight; certificate permissions fail closed."""
    from ..absint import evaluate, Obj, NotEvaluable
    rep = k.rep
    idx = k.idx
    rep.rule('C05.R6', 'an auth object starts a new asynchronous validator '
             'only after cancelling the previous one (a superseded validator '
             'that finishes late would authenticate the user name of a newer '
             'request); check_certificate_permission / get_certificate_option '
             'evaluated for no certificate, a certificate with an empty option '
             'set and one with options: only "no certificate" grants by '
             'default')
    sites = 0
    for fi in idx.iter_funcs(['auth']):
        if fi.cls is None or not idx.is_subclass(fi.cls, 'Auth'):
            continue
        if fi.name == '__init__':
            continue       # construction: no earlier validator can exist
        g = None
        for n, v in k.stores_to(fi, 'self._coro'):
            if v is None or (isinstance(v, ast.Constant) and v.value is None):
                continue
            g = g or k.cfg(fi)
            sites += 1
            canc = [x.id for x, c in k.calls_named(fi, 'cancel')
                    if dotted(c.func.value) in ('self', 'self._coro')]
            w = g.guarded_by(n.id, lambda x: False if x.kind == 'atom' and
                             dotted(x.ast) == 'self._coro' else None,
                             extra_blocked=canc)
            rep.check(bool(canc) and w is None, 'C05.R6',
                      key(fi, 'cancel before new validator'),
                      'the previous validator task is cancelled before a new '
                      'one is stored',
                      'a new validator task replaces self._coro without '
                      'cancelling the old one: the orphan can no longer be '
                      'cancelled by a later USERAUTH_REQUEST and its late '
                      'success is reported under the new user name',
                      k.loc(fi, n))
    rep.floor('C05.R6', 'validator task stores', sites, 1)
    SRV = 'connection.SSHServerConnection.'
    for name, kind in (('check_certificate_permission', 'perm'),
                       ('get_certificate_option', 'opt')):
        fi = k.func(SRV + name)
        body = [st for st in fi.node.body if not (
            isinstance(st, ast.Expr) and isinstance(st.value, ast.Constant))]
        bad = None
        n = 0
        for opts in ('none', 'empty', 'some'):
            for present in (False, True):
                if opts != 'some' and present:
                    continue
                n += 1

                def on_call(nm, args, env, opts=opts, present=present):
                    if nm == 'self._cert_options.get':
                        if present:
                            return 'GRANTED'
                        return args[1] if len(args) > 1 else None
                    if nm == 'cast':
                        return args[1]
                    return Obj('x')
                val = {'self._cert_options': None if opts == 'none' else
                       () if opts == 'empty' else Obj('OPTS')}
                try:
                    o = evaluate(idx, fi.module, body, val,
                                 {'permission': 'pty', 'option': 'o',
                                  'default': 'DEFAULT'}, on_call)
                except NotEvaluable as exc:
                    rep.error('C05.R6', key(fi, 'not-evaluable'), str(exc))
                    bad = 'error'
                    break
                asked = bool(o.called('self._cert_options.get'))
                if kind == 'perm':
                    want = True if opts == 'none' else \
                        ('GRANTED' if present else False)
                else:
                    want = 'DEFAULT' if opts == 'none' or not present \
                        else 'GRANTED'
                if o.kind != 'return' or o.value != want or \
                        (opts != 'none' and not asked):
                    bad = bad or (f'certificate options {opts}'
                                  f'{" with the entry" if present else ""}: '
                                  f'returns {o.value!r}, expected {want!r}')
            if bad == 'error':
                break
        if bad == 'error':
            continue
        rep.check(bad is None, 'C05.R6', key(fi, 'certificate option table'),
                  f'{n} states: only the absence of a certificate grants by '
                  'default; an empty option set grants nothing',
                  f'{bad}: a certificate whose option set is empty is '
                  'treated as "no certificate" and every permit-* '
                  'restriction is lifted', fi.loc(fi.node))


CALLBACK_PREFIXES = ('validate_', 'change_password', 'get_kbdint_challenge')


def awaited_verdict(k: Kit, rule: str, fi, g, c: ast.Call, what: str,
                    short: str) -> None:
    """The value of call `c` (an application callback that may return an
    awaitable) is bound to a name, tested with inspect.isawaitable and
    awaited before the name is read anywhere else."""
    rep = k.rep
    nd = g.node_for(c)
    st = nd.ast if nd is not None else None
    var = None
    if isinstance(st, ast.Assign) and st.value is c and \
            isinstance(st.targets[0], ast.Name):
        var = st.targets[0].id
    elif isinstance(st, ast.AnnAssign) and st.value is c and \
            isinstance(st.target, ast.Name):
        var = st.target.id
    if var is None:
        rep.violation(rule, key(fi, f'{short} awaited'),
                      f'the result of {what}() is '
                      'used directly (returned, awaited or tested) without '
                      'the isawaitable / await step on the result: for an '
                      'awaitable result it is an un-awaited object, which '
                      'is truthy', k.loc(fi, nd) if nd else
                      fi.loc(fi.node))
        return
    tests = [a.id for a in g.nodes if a.kind == 'atom' and
             is_call(a.ast, 'isawaitable') and a.ast.args and
             dotted(a.ast.args[0]) == var]
    awaits = [a.id for a in g.nodes if a.ast is not None and any(
        isinstance(x, ast.Await) and var in names_read(x)
        for x in ast.walk(a.ast))]
    bad = None
    for r in g.nodes:
        if r.id == nd.id or r.id in tests or r.id in awaits or \
                r.ast is None or var not in names_read(r.ast):
            continue
        # (1) no read before the awaitable test
        if g.path(nd.id, r.id, blocked_nodes=tests) is not None:
            bad = r
        # (2) on the awaitable edge the first use is the await
        for t in tests:
            for b, lab in g.succ[t]:
                if lab is True and (b == r.id or g.path(
                        b, r.id, blocked_nodes=awaits) is not None) \
                        and b not in awaits:
                    bad = r
    okt = bool(tests) and bool(awaits)
    rep.check(bad is None and okt, rule,
              key(fi, f'{short} awaited'),
              f'`{var}` is awaited when awaitable before it is used',
              f'`{var}` (the verdict of {what}) '
              'is read on a path that skipped the isawaitable / '
              'await step', k.loc(fi, bad if bad else nd))


def r7(k: Kit) -> None:
    """Possibly-asynchronous application verdicts are awaited before use."""
    rep = k.rep
    idx = k.idx
    rep.rule('C05.R7', 'every verdict the server connection obtains from an '
             'application callback that may be a coroutine (validate_*, '
             'change_password, get_kbdint_challenge) is bound to a name, '
             'tested with inspect.isawaitable and awaited before the name is '
             'read anywhere else: an un-awaited coroutine object is truthy, '
             'so returning it would accept every credential')
    n = 0
    for fi in idx.iter_funcs(['connection']):
        if fi.cls is None or fi.cls.name != 'SSHServerConnection' or \
                not isinstance(fi.node, ast.AsyncFunctionDef):
            continue
        calls = [c for c in ast.walk(fi.node) if isinstance(c, ast.Call) and
                 isinstance(c.func, ast.Attribute) and
                 dotted(c.func.value) == 'self._owner' and
                 c.func.attr.startswith(CALLBACK_PREFIXES)]
        if not calls:
            continue
        g = k.cfg(fi)
        for c in calls:
            n += 1
            awaited_verdict(k, 'C05.R7', fi, g, c,
                            f'self._owner.{c.func.attr}', c.func.attr)
    rep.floor('C05.R7', 'application verdict call sites', n, 8)


def r8(k: Kit) -> None:
    """Converse clause: a failed credential does not abandon the method
    while further credentials of the same method remain."""
    rep = k.rep
    idx = k.idx
    rep.rule('C05.R8', 'client methods that iterate over several credentials '
             '(public key, host based): try_next_auth(next_method=True) - '
             'give the whole method up - is reached only where the '
             'connection reported that no credential is left (`<cred> is '
             'None`); a failure to sign with one key retries the method so '
             'the next key is offered')
    n = 0
    for cname in ('_ClientPublicKeyAuth', '_ClientHostBasedAuth'):
        c = idx.cls('auth.' + cname)
        for fi in c.methods.values():
            calls = [(nd, cc) for nd, cc in k.calls_named(fi, 'try_next_auth')]
            if not calls:
                continue
            g = k.cfg(fi)
            for nd, cc in calls:
                n += 1
                give_up = any(kw.arg == 'next_method' and
                              isinstance(kw.value, ast.Constant) and
                              kw.value.value is True for kw in cc.keywords)
                if not give_up:
                    rep.ok('C05.R8', key(fi, 'retry keeps the method'),
                           'failure of one credential retries the method',
                           k.loc(fi, nd))
                    continue

                def val(x):
                    a = x.ast
                    if x.kind == 'atom' and isinstance(a, ast.Compare) and \
                            len(a.ops) == 1 and \
                            isinstance(a.comparators[0], ast.Constant) and \
                            a.comparators[0].value is None:
                        if isinstance(a.ops[0], ast.Is):
                            return True
                        if isinstance(a.ops[0], ast.IsNot):
                            return False
                    return None
                w = g.guarded_by(nd.id, val)
                rep.check(w is None, 'C05.R8',
                          key(fi, 'method abandoned only when exhausted'),
                          'next_method=True only behind `<credential> is '
                          'None`',
                          'the whole method is abandoned '
                          '(try_next_auth(next_method=True)) on a path where '
                          'credentials may remain: after one key fails to '
                          'sign, a later valid key is never offered',
                          k.loc(fi, nd), g.describe_path(w) if w else None)
    rep.floor('C05.R8', 'try_next_auth sites in iterating methods', n, 4)


def r9(k: Kit) -> None:
    """Restrictions come from the credential that was accepted."""
    from ..absint import evaluate, Obj, NotEvaluable
    rep = k.rep
    idx = k.idx
    rep.rule('C05.R9', 'SSHServerConnection.validate_public_key evaluated '
             'over (key/certificate acceptable?, request signed?, signature '
             'verifies?), with the validators modelled as what they are - '
             'functions that overwrite _key_options / _cert_options: when '
             'the call returns, those fields hold the new values only if a '
             'signed request verified; a query or a failed signature leaves '
             'the previous ones (the restrictions enforced are those of the '
             'accepted credential)')
    fi = k.func('connection.SSHServerConnection.validate_public_key')
    body = [st for st in fi.node.body if not (
        isinstance(st, ast.Expr) and isinstance(st.value, ast.Constant))]
    bad = None
    n = 0
    for via in ('cert', 'key', 'none'):
        for signed in (False, True):
            for verifies in (False, True):
                if not signed and verifies:
                    continue
                n += 1

                def on_call(nm, args, env, via=via, verifies=verifies):
                    if nm == 'self._validate_client_certificate':
                        if via == 'cert':
                            env['self._key_options'] = 'NEW-K'
                            env['self._cert_options'] = 'NEW-C'
                            return Obj('KEY')
                        return None
                    if nm == 'self._validate_client_public_key':
                        if via == 'key':
                            env['self._key_options'] = 'NEW-K'
                            return Obj('KEY')
                        return None
                    if nm == 'KEY.verify':
                        return verifies
                    return Obj('x')
                val = {'self._key_options': 'OLD-K',
                       'self._cert_options': 'OLD-C',
                       'self._session_id': b'sid'}
                try:
                    o = evaluate(idx, fi.module, body, val,
                                 {'username': 'u', 'key_data': b'k',
                                  'msg': b'm' if signed else b'',
                                  'signature': b's'}, on_call)
                except NotEvaluable as exc:
                    rep.error('C05.R9', key(fi, 'not-evaluable'), str(exc))
                    return
                accepted = via != 'none' and signed and verifies
                want_ret = via != 'none' and (verifies if signed else True)
                ko = o.env.get('self._key_options', 'OLD-K')
                co = o.env.get('self._cert_options', 'OLD-C')
                if o.kind != 'return' or bool(o.value) != want_ret:
                    bad = bad or (f'{via}/signed={signed}/verifies='
                                  f'{verifies}: returns {o.value!r}')
                    continue
                if accepted:
                    okf = ko == 'NEW-K' and co == (
                        'NEW-C' if via == 'cert' else 'OLD-C')
                else:
                    okf = ko == 'OLD-K' and co == 'OLD-C'
                if not okf:
                    bad = bad or (
                        f'credential via {via}, '
                        + ('signed and verified' if accepted else
                           'only queried' if not signed else
                           'signature does not verify') +
                        f': afterwards key options = {ko}, certificate '
                        f'options = {co}')
    rep.count('eval.pubkey_option_states', n)
    rep.check(bad is None, 'C05.R9', key(fi, 'options of the accepted '
                                         'credential'),
              f'{n} states: options change only for a verified signed '
              'request', f'{bad}: the options of a key or certificate that '
              'was merely queried (PK_OK) or failed to verify stay in force '
              '- e.g. the force-command of somebody else\'s certificate '
              'replaces the command= of the key that then logs in',
              fi.loc(fi.node))


def r10(k: Kit) -> None:
    """Security-key touch is waived only if every source waives it."""
    rep = k.rep
    idx = k.idx
    rep.rule('C05.R10', 'every set_touch_required(...) argument of the server '
             'connection, evaluated over the values of the no-touch-required '
             'key option and certificate option: for a certificate the touch '
             'requirement is dropped only if both authorized_keys and the '
             'certificate carry no-touch-required, for a plain key only if '
             'its authorized_keys line does')
    n = 0
    for fi in idx.iter_funcs(['connection']):
        if fi.cls is None or fi.cls.name != 'SSHServerConnection':
            continue
        for nd, c in k.calls_named(fi, 'set_touch_required'):
            n += 1
            is_cert = bool(k.stores_to(fi, 'self._cert_options'))
            bad = None
            for ko in (False, True):
                for co in (False, True):
                    def on_call(nm, args, env, ko=ko, co=co):
                        if args and args[0] == 'no-touch-required':
                            if nm == 'self.get_key_option':
                                return ko
                            if nm == 'self.get_certificate_option':
                                return co
                        return Obj('x')
                    try:
                        o = evaluate(idx, fi.module,
                                     [ast.Return(value=c.args[0])], {}, {},
                                     on_call)
                    except NotEvaluable as exc:
                        rep.error('C05.R10', key(fi, 'not-evaluable'),
                                  str(exc))
                        return
                    want = not (ko and co) if is_cert else not ko
                    if o.kind != 'return' or o.value is not want:
                        bad = bad or (
                            f'authorized_keys no-touch-required={ko}, '
                            f'certificate no-touch-required={co}: touch '
                            f'required = {o.value!r}, expected {want}')
            rep.check(bad is None, 'C05.R10',
                      key(fi, 'touch waived only by every source'),
                      'four option combinations', f'{bad}: a security-key '
                      'signature made without user presence is accepted '
                      'although one side demands the touch',
                      k.loc(fi, nd))
    rep.floor('C05.R10', 'set_touch_required sites', n, 2)


def r11(k: Kit) -> None:
    """The client's stored password is spent only on a password prompt."""
    rep = k.rep
    rep.rule('C05.R11', 'client kbdint_challenge_received: '
             'password_auth_requested() - which hands out and clears the '
             'stored password - is called only on the True edge of a '
             '`\'password\' in prompt` / `\'passcode\' in prompt` test: a '
             'challenge that asks for something else is declined without '
             'consuming the credential the password method still needs')
    fi = k.func('connection.SSHClientConnection.kbdint_challenge_received')
    g = k.cfg(fi)
    sites = k.calls_named(fi, 'password_auth_requested', 'self')
    rep.floor('C05.R11', 'stored password uses', len(sites), 1)

    def asks(n: Node) -> Optional[bool]:
        a = n.ast
        if n.kind == 'atom' and isinstance(a, ast.Compare) and \
                len(a.ops) == 1 and isinstance(a.ops[0], ast.In) and \
                isinstance(a.left, ast.Constant) and \
                a.left.value in ('password', 'passcode'):
            return True
        return None
    for nd, c in sites:
        w = g.guarded_by(nd.id, asks)
        rep.check(w is None, 'C05.R11',
                  key(fi, 'password spent only on a password prompt'),
                  'the call is guarded by the prompt test',
                  'the stored password is fetched (and cleared) before the '
                  'prompt is known to ask for it: after a server\'s '
                  'one-prompt non-password challenge the password method has '
                  'nothing left to send and a client with a valid password '
                  'is refused', k.loc(fi, nd),
                  g.describe_path(w) if w else None)


def r12(k: Kit) -> None:
    """A new authentication request abandons the one in progress at once."""
    rep = k.rep
    rep.rule('C05.R12', 'server _process_userauth_request: the task that '
             'prepares the new request (reload_config, begin_auth - both '
             'await) is created only after the auth object in progress was '
             'cancelled and self._auth cleared, in the same synchronous '
             'step.  Otherwise method messages (60-79) that arrive meanwhile '
             'are still handled by the old auth object - created for the old '
             'user name - and its success is recorded for the connection\'s '
             'new user name')
    fi = k.func(CONN + '_process_userauth_request')
    g = k.cfg(fi)
    tasks = [n for n, c in k.calls_named(fi, 'create_task', 'self')
             if '_finish_userauth' in unparse(c)]
    rep.floor('C05.R12', 'request task creation sites', len(tasks), 1)
    clears = [n.id for n, v in k.stores_to(fi, 'self._auth')
              if isinstance(v, ast.Constant) and v.value is None]
    cancels = [n.id for n, c in k.calls_named(fi, 'cancel', 'self._auth')]
    for t in tasks:
        # on every path, either self._auth was falsy or it was cancelled
        # and cleared
        w = g.guarded_by(t.id, lambda x: False if x.kind == 'atom' and
                         dotted(x.ast) == 'self._auth' else None,
                         extra_blocked=clears)
        w2 = g.guarded_by(t.id, lambda x: False if x.kind == 'atom' and
                          dotted(x.ast) == 'self._auth' else None,
                          extra_blocked=cancels)
        rep.check(w is None and w2 is None, 'C05.R12',
                  key(fi, 'method in progress abandoned synchronously'),
                  'self._auth.cancel() and self._auth = None precede the '
                  'task on every path where an auth object exists',
                  'the previous auth object stays installed as the handler '
                  'of messages 60-79 until the new request\'s task has '
                  'awaited reload_config() / begin_auth(): a client that '
                  'sends USERAUTH_REQUEST(bob) followed at once by the '
                  'answer to alice\'s keyboard-interactive challenge is '
                  'authenticated as bob on alice\'s credential',
                  k.loc(fi, t), g.describe_path(w or w2) if (w or w2)
                  else None)


def r13(k: Kit) -> None:
    """Trust established for one claimed host does not carry over."""
    rep = k.rep
    rep.rule('C05.R13', '_match_known_hosts (run for every host-based '
             'request with the claimed or resolved client host) replaces the '
             'trusted host key, CA and revoked sets by the result of this '
             'lookup: none of them is grown in place (add / update / extend '
             '/ |=), so a key listed only for host X is not trusted for a '
             'later request that claims host Y')
    fi = k.func(CONN + '_match_known_hosts')
    fields = ('self._trusted_host_keys', 'self._trusted_ca_keys',
              'self._revoked_host_keys', 'self._x509_trusted_certs',
              'self._x509_revoked_certs')
    n = 0
    for f in fields:
        sts = k.stores_to(fi, f)
        n += len(sts)
        grown = [c for c in ast.walk(fi.node) if isinstance(c, ast.Call) and
                 isinstance(c.func, ast.Attribute) and
                 dotted(c.func.value) == f and
                 c.func.attr in ('add', 'update', 'extend', 'append')]
        grown += [x for x in ast.walk(fi.node)
                  if isinstance(x, ast.AugAssign) and dotted(x.target) == f]
        selfdep = [v for nd, v in sts if v is not None and
                   f in {dotted(x) for x in ast.walk(v)
                         if isinstance(x, ast.Attribute)}]
        rep.check(bool(sts) and not grown and not selfdep, 'C05.R13',
                  key(fi, f'{f[5:]} replaced, not grown'),
                  'assigned from this lookup\'s result',
                  f'{f} is grown in place ('
                  f'{"; ".join(norm(x)[:50] for x in grown + selfdep) or "never assigned"}'
                  '): with trust_client_host / known_client_hosts a '
                  'host-based request for host X leaves X\'s keys trusted '
                  'for a following request that claims host Y on the same '
                  'connection', fi.loc(fi.node))
    rep.floor('C05.R13', 'trust set stores', n, 3)


def r14(k: Kit) -> None:
    """A request task that was overtaken by a newer request decides nothing."""
    rep = k.rep
    rep.rule('C05.R14', '_finish_userauth runs as a task and awaits '
             'reload_config() and the application\'s begin_auth(); it is '
             'given the user name of its own request, and every path from '
             'one of those awaits to send_userauth_success() or to the '
             'installation of an auth object takes the equal edge of a '
             'comparison of that name with self._username - a later '
             'USERAUTH_REQUEST for another user may have changed it while '
             'the task slept, and "no authentication needed" for the first '
             'name must not admit the second')
    fp = k.func(CONN + '_process_userauth_request')
    fu = k.func(CONN + '_finish_userauth')
    okp = 'username' in fu.params
    starts = [c for n, c in k.call_nodes(fp, lambda c: is_call(
        c, '_finish_userauth', 'self'))]
    okc = bool(starts) and all(
        any(dotted(a) == 'username' for a in c.args) for c in starts)
    rep.check(okp and okc, 'C05.R14', key(fu, 'task knows its own user name'),
              'the request\'s user name is passed to the task',
              '_finish_userauth reads the user name from the connection '
              'when it resumes instead of being handed the name of the '
              'request it was created for', fu.loc(fu.node))
    g = k.cfg(fu)
    awaits = [n for n in g.nodes if n.ast is not None and any(
        isinstance(x, ast.Await) for r_ in g.node_roots(n)
        for x in walk_shallow(r_))]
    sinks = [n for n, c in k.call_nodes(fu, lambda c: is_call(
        c, 'send_userauth_success', 'self') or is_call(
            c, 'lookup_server_auth'))]
    rep.floor('C05.R14', 'decision sites in _finish_userauth', len(sinks), 2)

    def current(x: Node) -> Optional[bool]:
        a = x.ast
        if x.kind == 'atom' and isinstance(a, ast.Compare) and \
                len(a.ops) == 1 and \
                {dotted(a.left), dotted(a.comparators[0])} == \
                {'username', 'self._username'}:
            if isinstance(a.ops[0], ast.Eq):
                return True
            if isinstance(a.ops[0], ast.NotEq):
                return False
        return None
    for sk in sinks:
        bad = None
        for a in awaits:
            if a.id == sk.id:
                # the await of send_userauth_success itself
                continue
            for b, lab in g.succ[a.id]:
                if lab == 'exc':
                    continue
                if b != sk.id and g.path(b, sk.id, follow_exc=False) is None:
                    continue
                w = [b] if b == sk.id else g.guarded_by(sk.id, current,
                                                        start=b)
                if w is not None:
                    bad = bad or (a, w)
        rep.check(bad is None, 'C05.R14',
                  key(fu, f'{norm(sk.ast)[:40]} only for the current request'),
                  'guarded by username == self._username after every await',
                  'after awaiting reload_config() / begin_auth() the task '
                  'goes on to decide for whatever self._username is now: '
                  'USERAUTH_REQUEST(guest, none) with an asynchronous '
                  'begin_auth(guest) -> False, overtaken by '
                  'USERAUTH_REQUEST(root, password, wrong), ends in '
                  'USERAUTH_SUCCESS for root', k.loc(fu, sk),
                  g.describe_path(bad[1]) if bad else None)


def r16(k: Kit) -> None:
    """Requests are set up one after the other."""
    rep = k.rep
    rep.rule('C05.R16', 'every USERAUTH_REQUEST is finished by a task that '
             'first waits for the task of the request before it: '
             '_process_userauth_request keeps the task it creates in a field '
             'and hands the previous value to the new coroutine, and '
             '_finish_userauth awaits that argument before it calls '
             'begin_auth or lookup_server_auth.  Otherwise a request for the '
             'same new user that follows a user switch at once (begin_auth '
             '= False) is checked against the per-user state of the '
             'previous user - its authorized keys are still installed while '
             'reload_config() for the new user is in the executor')
    fp = k.func(CONN + '_process_userauth_request')
    fu = k.func(CONN + '_finish_userauth')
    gp = k.cfg(fp)
    fields = []
    for n, v in [(n, v) for f in ('self._' + x for x in (
            'auth_task', 'userauth_task', 'auth_setup_task', 'finish_task',
            'auth_request_task')) for n, v in k.stores_to(fp, f)]:
        pass
    # any field assigned from self.create_task(self._finish_userauth(...))
    prev_param = None
    okp = False
    for x in ast.walk(fp.node):
        if isinstance(x, ast.Assign) and len(x.targets) == 1 and \
                isinstance(x.value, ast.Call) and \
                is_call(x.value, 'create_task', 'self') and x.value.args and \
                isinstance(x.value.args[0], ast.Call) and \
                is_call(x.value.args[0], '_finish_userauth', 'self'):
            fld = dotted(x.targets[0])
            inner = x.value.args[0]
            if fld and fld.startswith('self.'):
                for i, a in enumerate(inner.args):
                    if dotted(a) == fld and i < len(fu.params) - 1:
                        prev_param = fu.params[i + 1]   # skip self
                        okp = True
    rep.check(okp, 'C05.R16', key(fp, 'task chained to its predecessor'),
              'the previous request\'s task is passed to the new one',
              'the task finishing a USERAUTH_REQUEST is created without any '
              'link to the task of the request before it: '
              'USERAUTH_REQUEST(alice, none), then USERAUTH_REQUEST(bob, '
              'none) immediately followed by USERAUTH_REQUEST(bob, '
              'publickey signed with alice\'s key) is validated against '
              'alice\'s authorized keys and succeeds as bob',
              fp.loc(fp.node))
    if not okp:
        return
    g = k.cfg(fu)
    waits = [n.id for n in g.nodes if n.ast is not None and any(
        isinstance(x, ast.Await) and prev_param in names_read(x)
        for r_ in g.node_roots(n) for x in walk_shallow(r_))]
    sinks = [n for n, c in k.call_nodes(fu, lambda c: is_call(
        c, 'begin_auth') or is_call(c, 'lookup_server_auth') or
        is_call(c, 'reload_config'))]

    def noprev(x: Node) -> Optional[bool]:
        if x.kind == 'atom' and x.ast is not None and \
                dotted(x.ast) == prev_param:
            return False
        return None
    for sk in sinks:
        w = g.guarded_by(sk.id, noprev, extra_blocked=waits)
        rep.check(bool(waits) and w is None, 'C05.R16',
                  key(fu, f'{norm(sk.ast)[:36]} after the previous request'),
                  f'`await` on `{prev_param}` precedes it whenever there is '
                  'a previous task',
                  'the request is evaluated without waiting for the set-up '
                  'of the request before it', k.loc(fu, sk),
                  g.describe_path(w) if w else None)


def r18(k: Kit) -> None:
    """A user switch replaces all per-user state."""
    rep = k.rep
    rep.rule('C05.R18', 'reload_config (run for every change of the user '
             'name) stores each per-user setting taken from the re-evaluated '
             'options - the authentication method switches, the authorized '
             'client keys, the session permissions - unconditionally, on '
             'every normal path and with the option of the same name: a '
             'value the new user\'s configuration does not set must not '
             'leave the previous user\'s in place')
    fi = k.func('connection.SSHServerConnection.reload_config')
    g = k.cfg(fi)
    n = 0
    for fld in ('_authorized_client_keys', '_host_based_auth',
                '_public_key_auth', '_kbdint_auth', '_password_auth',
                '_allow_pty', '_x11_forwarding', '_agent_forwarding'):
        sts = k.stores_to(fi, 'self.' + fld)
        n += len(sts)
        ids = [nd.id for nd, v in sts]
        w = g.must_pass(ids, follow_exc=False)
        okv = bool(sts) and all(
            v is not None and dotted(v) == 'options.' + fld[1:]
            for nd, v in sts)
        rep.check(bool(sts) and w is None and okv, 'C05.R18',
                  key(fi, f'{fld} replaced on reload'),
                  f'self.{fld} = options.{fld[1:]} on every path',
                  f'self.{fld} is not replaced unconditionally when the '
                  'configuration is re-evaluated for a new user name: '
                  '(authorized keys) with `Match User alice / '
                  'AuthorizedKeysFile ...`, a request for bob signed with '
                  'alice\'s key succeeds as bob because bob\'s '
                  'configuration names no file', fi.loc(fi.node),
                  g.describe_path(w) if w else None)
    rep.floor('C05.R18', 'per-user settings reloaded', n, 8)


def r19(k: Kit) -> None:
    """Host-based: the application decides about the host that was verified."""
    rep = k.rep
    rep.rule('C05.R19', 'host-based authentication: the host name handed to '
             'validate_host_based_user() is the name the client host key '
             'was looked up and verified for (_validate_host_key), not the '
             'name the request merely claims - otherwise the signature is '
             'by a key that is not authorized for the (host, user) pair the '
             'access decision is taken for')
    fi = k.func('connection.SSHServerConnection.validate_host_based_auth')
    look = [c for n, c in k.calls_named(fi, '_validate_host_key', 'self')]
    dec = [(n, c) for n, c in k.calls_named(fi, 'validate_host_based_user')]
    rep.floor('C05.R19', 'host key lookups', len(look), 1)
    rep.floor('C05.R19', 'application decisions', len(dec), 1)
    g19 = k.cfg(fi)
    rd19 = k.rd(fi)

    def root(nid, e):
        # follow plain local copies (x = y, one definition) to their source
        seen = set()
        while isinstance(e, ast.Name) and e.id not in seen:
            seen.add(e.id)
            ds = [d for d in rd19.defs_of(nid, e.id) if d != PARAM]
            if len(ds) != 1 or len(rd19.defs_of(nid, e.id)) != 1:
                break
            v = rd19.def_value(ds[0], e.id)
            if not isinstance(v, ast.Name):
                break
            nid, e = ds[0], v
        return dotted(e)
    verified = {root(n_.id, c_.args[0])
                for n_, c_ in k.calls_named(fi, '_validate_host_key', 'self')
                if c_.args}
    for n, c in dec:
        h = root(n.id, c.args[1]) if len(c.args) > 1 else None
        rep.check(h is not None and h in verified, 'C05.R19',
                  key(fi, 'decision is about the verified host'),
                  f'validate_host_based_user(..., {h}, ...) and '
                  f'_validate_host_key({h}, ...)',
                  f'the application is asked about {h!r} while the key was '
                  f'verified for {sorted(map(str, verified))}: with '
                  'trust_client_host off, a client at 127.0.0.1 whose key '
                  'is known for localhost claims '
                  'client_host=trusted.example.com and is granted what the '
                  'application allows that host (the mismatch is only '
                  'logged)', k.loc(fi, n))


def run(idx, rep, tier):
    k = Kit(idx, rep)
    rep.assumptions += NOT_DECIDED
    r1(k)
    r2(k)
    r3(k)
    r4(k)
    r5(k)
    r6(k)
    r7(k)
    r8(k)
    r9(k)
    r10(k)
    r11(k)
    r12(k)
    r13(k)
    r14(k)
    r16(k)
    r18(k)
    r19(k)
    # C05.R15: shared rule
    from .c06 import r1 as _c06r1
    rep.rule('C05.R15', 'receive gate (= rows of C06.R1): connection-protocol messages (80+) are rejected until authentication is complete, whatever the other auth flags say - a client that never requests ssh-userauth gets no channel, request or forward served')
    _before = len(rep.obligations)
    _c06r1(k)
    _kept = [o for o in rep.obligations[_before:] if 'auth' in o.key or '80+' in o.key or 'channel' in o.key]
    del rep.obligations[_before:]
    rep.obligations.extend(_kept)
    rep.floor('C05.R15', 'shared rows', len(_kept), 1)
    for o in rep.obligations[_before:]:
        o.rule = 'C05.R15'
    # C05.R17: shared rule
    from .c17 import r3 as _c17r3
    rep.rule('C05.R17', 'authorized_keys restrictions (= C17.R3 match_options '
             'table): from=, principals= and subject patterns must all '
             'match; a certificate that lists no principals does not '
             'satisfy a principals= restriction (and is then not compared '
             'with the user name either)')
    _before = len(rep.obligations)
    _c17r3(k)
    _kept = [o for o in rep.obligations[_before:] if 'match_options' in o.key]
    del rep.obligations[_before:]
    rep.obligations.extend(_kept)
    rep.floor('C05.R17', 'shared rows', len(_kept), 4)
    for o in rep.obligations[_before:]:
        o.rule = 'C05.R17'
    # C05.R20: shared rule
    from .c16 import r10 as _c16r10
    rep.rule('C05.R20', 'webauthn-sk signatures are bound to this session (= C16.R10): the client data must start with the prefix built from the signed data (session id + request), challenge closed by its quote, origin following - a recorded signature blob does not authenticate a new session')
    _before = len(rep.obligations)
    _c16r10(k)
    for o in rep.obligations[_before:]:
        o.rule = 'C05.R20'
    # C05.R21: shared rules
    from .c17 import r5 as _c17r5, ca_lines_routed
    rep.rule('C05.R21', 'authorized_keys lookup (= clauses of C17.R5 / C17.R4): every line listing the presented key is tried in file order until one whose options match, and a cert-authority line never serves as a plain key line')
    _before = len(rep.obligations)
    _c17r5(k)
    _kept = [o for o in rep.obligations[_before:] if 'every entry for the key tried' in o.key]
    del rep.obligations[_before:]
    rep.obligations.extend(_kept)
    rep.floor('C05.R21', 'shared rows', len(_kept), 1)
    ca_lines_routed(k, 'C05.R21')
    for o in rep.obligations[_before:]:
        o.rule = 'C05.R21'
    rep.rule('C05.R22', 'environment="NAME=value" of the accepted key wins: '
             'SSHServerChannel._process_env_request stores a client value '
             'only for a name the key did not set (the store is reached '
             'only on the "not in the key\'s environment" edge of a test) - '
             'the option exists to pin variables such as ROLE=readonly')
    _fi = k.func('channel.SSHServerChannel._process_env_request')
    _g = k.cfg(_fi)
    _st = [n for n in _g.nodes if isinstance(n.ast, ast.Assign) and any(
        isinstance(t, ast.Subscript) and dotted(t.value) == 'self._env'
        for t in n.ast.targets)]
    rep.floor('C05.R22', 'client env stores', len(_st), 1)

    def _free(x):
        a = x.ast
        if x.kind == 'atom' and isinstance(a, ast.Compare) and \
                len(a.ops) == 1 and dotted(a.left) == 'key' and \
                (dotted(a.comparators[0]) or '').startswith('self._'):
            if isinstance(a.ops[0], ast.In):
                return False
            if isinstance(a.ops[0], ast.NotIn):
                return True
        return None
    for _n in _st:
        _w = _g.guarded_by(_n.id, _free)
        rep.check(_w is None, 'C05.R22',
                  key(_fi, 'key environment not overridden'),
                  'self._env[key] = value only for names the key left free',
                  'authorized_keys environment="ROLE=readonly", client env '
                  'request ROLE=admin: the session runs with ROLE=admin',
                  k.loc(_fi, _n), _g.describe_path(_w) if _w else None)
    rep.rule('C05.R23', 'authorized_keys options the server does not '
             'implement are not silently dropped: on the way from the '
             'option text to the accepted entry some test compares the '
             'option name with the names that are implemented and refuses '
             'the line otherwise (sshd: "bad options", key not accepted) - '
             'necessary condition only: OptionsParser._add_option / '
             '_SSHAuthorizedKeyEntry contain a membership test of the name '
             'on whose failing edge the entry is rejected; today `restrict` '
             'and `expiry-time="20000101"` are accepted and ignored')
    _cls = k.idx.cls('auth_keys._SSHAuthorizedKeyEntry')
    _fns = [k.func('misc.OptionsParser._add_option')] + [
        m for m in _cls.methods.values()]
    _found = False
    for _f in _fns:
        _g = k.cfg(_f)
        for _a in _g.nodes:
            e = _a.ast
            if _a.kind != 'atom' or not isinstance(e, ast.Compare) or \
                    len(e.ops) != 1 or not isinstance(
                        e.ops[0], (ast.In, ast.NotIn)):
                continue
            if dotted(e.left) not in ('option', 'name') or \
                    dotted(e.comparators[0]) in ('self._handlers',
                                                 'self.options'):
                continue
            _rej = True if isinstance(e.ops[0], ast.NotIn) else False
            for _b, _lab in _g.succ[_a.id]:
                if _lab is _rej and (
                        _g.nodes[_b].kind == 'raise_stmt' or
                        _g.path(_b, _g.exit, follow_exc=False) is None):
                    _found = True
    rep.check(_found, 'C05.R23',
              'auth_keys._SSHAuthorizedKeyEntry|unknown options refused',
              'option names are checked against the implemented set',
              'no test of the option name against the implemented set: a '
              'line `restrict ssh-ed25519 ...` still gets a pty and '
              'direct-tcpip, `expiry-time="20000101" ...` is still '
              'admitted', 'asyncssh/auth_keys.py')
    rep.rule('C05.R24', 'keyboard-interactive verdicts: in '
             '_ServerKbdIntAuth._send_challenge, send_success() is reached '
             'only on the false edge of an isinstance test that covers '
             'tuple and list - a challenge the application returns as a '
             'list is a challenge to send, not the verdict "accepted"')
    _fs = k.func('auth._ServerKbdIntAuth._send_challenge')
    _gs = k.cfg(_fs)
    _succ = [n for n, c in k.calls_named(_fs, 'send_success', 'self')]
    rep.floor('C05.R24', 'success sites in _send_challenge', len(_succ), 1)

    def _not_seq(x):
        a = x.ast
        if x.kind == 'atom' and is_call(a, 'isinstance') and \
                len(a.args) == 2 and dotted(a.args[0]) == 'challenge':
            t = a.args[1]
            names = {dotted(e) for e in t.elts} if isinstance(
                t, ast.Tuple) else {dotted(t)}
            if {'tuple', 'list'} <= names or names & {
                    'Sequence', 'collections.abc.Sequence'}:
                return False
        return None
    for _n in _succ:
        _w = _gs.guarded_by(_n.id, _not_seq)
        rep.check(_w is None, 'C05.R24',
                  key(_fs, 'a list challenge is not a verdict'),
                  'success only when the value is neither tuple nor list',
                  'get_kbdint_challenge() returning [name, instruction, '
                  'lang, prompts] falls into `elif challenge: '
                  'send_success()`: the user is authenticated with no '
                  'INFO_REQUEST and no call of the validator',
                  k.loc(_fs, _n), _gs.describe_path(_w) if _w else None)
    from .shared import share
    from .c17 import r3_case as _c17r3c
    share(k, 'C05.R25', 'restrictions of the accepted key are found whatever their spelling (= clause of C17.R3): check_key_permission / get_key_option look options up by lower-cased name, as the parser stores them (no-X11-forwarding)', _c17r3c, keep=lambda key: 'lookup by lower-cased name' in key)
    rep.rule('C05.R26', 'certificate source-address: the restriction is '
             'applied whenever the critical option is present - the test in '
             '_validate_openssh_certificate is "is not None", not '
             'truthiness: an option that decodes to an empty list matches '
             'no address (sshd refuses), it does not mean "no restriction"')
    _fv = k.func('connection.SSHServerConnection._validate_openssh_certificate')
    _gv = k.cfg(_fv)
    _at = [a for a in _gv.nodes if a.kind == 'atom' and a.ast is not None and
           'allowed_addresses' in names_read(a.ast) and not any(
               isinstance(x, ast.comprehension) for x in ast.walk(a.ast))]
    _at = [a for a in _at if not is_call(a.ast, 'any')]
    rep.floor('C05.R26', 'tests of the source-address option', len(_at), 1)
    for _a in _at:
        _ok = isinstance(_a.ast, ast.Compare) and any(
            isinstance(c, ast.Constant) and c.value is None
            for c in _a.ast.comparators)
        if isinstance(_a.ast, ast.UnaryOp) or is_call(_a.ast, 'any'):
            continue
        rep.check(_ok, 'C05.R26',
                  key(_fv, 'empty source-address list still restricts'),
                  'allowed_addresses is not None',
                  f'`if {norm(_a.ast)}`: a certificate whose critical '
                  'source-address option is an empty list is accepted from '
                  'every address', k.loc(_fv, _a))
    rep.rule('C05.R27', 'a key held by an ssh-agent signs as that key: '
             'SSHAgentKeyPair.sign / sign_async ask the agent with '
             'self.key_public_data (the blob the agent lists), not with '
             'self.public_data, which becomes the certificate blob once '
             'set_certificate() attached one the agent does not hold')
    _na = 0
    for _q in ('agent.SSHAgentKeyPair.sign_async', 'agent.SSHAgentKeyPair.sign'):
        if not k.idx.has_func(_q):
            continue
        _fa = k.func(_q)
        for _n, _c in k.calls_named(_fa, 'sign', 'self._agent'):
            _na += 1
            _src = set()
            if _c.args:
                _src = {dotted(_c.args[0])}
                _lv, _fr = expr_sources(k.cfg(_fa), k.rd(_fa), _n.id,
                                        _c.args[0])
                _src |= {dotted(x) for x in _lv} | set(_fr)
            rep.check(bool(_c.args) and 'self.key_public_data' in _src and
                      'self.public_data' not in _src, 'C05.R27',
                      key(_fa, 'agent asked for the key it holds'),
                      'self._agent.sign(self.key_public_data, ...)',
                      f'`{norm(_c)[:70]}`: with client_keys=[(agent_key, '
                      'cert)] the agent is asked to sign with the '
                      'certificate blob, declines, and a client holding a '
                      'valid certificate is refused', k.loc(_fa, _n))
    rep.floor('C05.R27', 'agent sign requests', _na, 1)
