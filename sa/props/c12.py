"""C12 SFTP transfers reproduce the source bytes exactly or report failure.

R1 no block error is dropped: decision table of the result-collection
   step of _SFTPParallelIO.iter
R2 early EOF of a non-sparse copy is an error
R3 positions come from the request, not from arrival order; the file
   offset advances by the number of bytes actually written/read
R4 both files are closed on every exit of the copier
"""

from __future__ import annotations

import ast
from typing import Any, Dict, List, Optional

from ..kit import Kit, is_call, key, norm, linear, lin_eq
from ..index import dotted, walk_shallow, unparse, names_read
from ..flow import expr_sources, depends_on
from ..absint import (evaluate, evaluate_total, product, Obj, Unknown,
                      _Raise, NotEvaluable)
from ..cfg import Node

NOT_DECIDED = [
    'byte equality of source and destination (runtime)',
    'offset arithmetic beyond the linear identities checked; sparse layouts',
]


def _rows(tasks, o, extra, rows, bad):
    errs = [t for t in tasks if t in ('oserror', 'sftperror')]
    yields = [a[0] for nm, a in o.calls if nm == '<yield>']
    cont = [a for nm, a in o.calls if nm == 'self._start_task']
    cancels = [nm for nm, a in o.calls if nm.endswith('.cancel')]

    def row(name, cond, req, why):
        if cond:
            rows[name] = rows.get(name, 0) + 1
            if not req and name not in bad:
                bad[name] = f'{why}; tasks {tasks}; assumed {extra}; outcome {o}'
    row('a failed block fails the transfer', bool(errs),
        o.kind == 'raise' and o.value in ('OSError',
                                          'SFTPFailure'),
        'a block error is dropped: the transfer reports success '
        'with a hole / stale data')
    row('the first error is the one raised', bool(errs),
        o.kind == 'raise' and o.value == (
            'OSError' if errs[0] == 'oserror' else 'SFTPFailure')
        if errs else True, 'wrong error raised')
    row('outstanding tasks cancelled on error', bool(errs),
        bool(cancels), 'pending tasks are not cancelled')
    row('no error ⇒ no raise', not errs, o.kind != 'raise',
        'transfer fails without a block error')
    row('EOF ends the transfer quietly', 'eof' in tasks and
        not errs, ('self._bytes_left', 0) in o.stores,
        'EOF does not stop scheduling further blocks')
    nok = len([t for t in tasks if t in ('full', 'short')])
    # yields happen before a later task's error is known
    exp_y = []
    for i, t in enumerate(tasks):
        if t in ('full', 'short'):
            exp_y.append((100 * (i + 1), b'D'))
    row('data yielded with its request offset', True,
        yields == exp_y, 'block data is not yielded with the '
        'offset it was requested at')
    exp_c = [(100 * (i + 1) + 4, 6)
             for i, t in enumerate(tasks) if t == 'short']
    row('short read continues at offset+count', True,
        [c[:2] for c in cont] == exp_c,
        'a short read is not continued at offset+count for '
        'size-count')


def r1(k: Kit) -> None:
    rep = k.rep
    idx = k.idx
    rep.rule('C12.R1', 'in _SFTPParallelIO.iter every completed block task '
             'is examined: data is yielded with its request offset, a short '
             'read re-issues the remainder at offset+count, only SFTPEOFError '
             'ends the transfer quietly, any OSError / SFTPError is collected '
             'unconditionally and re-raised after cancelling the outstanding '
             'tasks')
    fi = k.func('sftp._SFTPParallelIO.iter')
    loop = None
    for x in ast.walk(fi.node):
        if isinstance(x, ast.While) and 'self._pending' in unparse(x.test):
            loop = x
    if loop is None:
        rep.error('C12.R1', key(fi, 'loop'), 'pending loop not found')
        return
    # fragment: everything in the while body after the `await asyncio.wait`
    body = loop.body
    start = None
    for i, st in enumerate(body):
        if any(is_call(c, 'wait') for c in ast.walk(st)):
            start = i + 1
    if start is None:
        rep.error('C12.R1', key(fi, 'wait'), 'asyncio.wait not found')
        return
    frag = body[start:]
    kinds = ['full', 'short', 'eof', 'oserror', 'sftperror']
    rows: Dict[str, int] = {}
    bad: Dict[str, str] = {}
    n = 0
    for k1 in kinds:
        for k2 in [None] + kinds:
            for order in (0, 1):
                tasks = [k1] + ([k2] if k2 else [])
                if order and len(tasks) == 2:
                    tasks = tasks[::-1]
                elif order:
                    continue
                n += 1
                done = tuple(Obj(f'T{i}') for i in range(len(tasks)))

                def on_call(name, args, env, tasks=tasks):
                    if name.endswith('.result') and name.startswith('T'):
                        kd = tasks[int(name[1])]
                        off = 100 * (int(name[1]) + 1)
                        if kd == 'full':
                            return (off, 10, 10, b'D')
                        if kd == 'short':
                            return (off, 10, 4, b'D')
                        if kd == 'eof':
                            return _Raise('SFTPEOFError')
                        if kd == 'oserror':
                            return _Raise('OSError')
                        return _Raise('SFTPFailure')
                    if name == 'self._start_task':
                        return Obj('CORO')
                    if name == 'asyncio.ensure_future':
                        return Obj('NEWTASK')
                    return Obj('x')
                try:
                    outs = evaluate_total(
                        idx, fi.module, frag,
                        {'self._pending': lambda: [Obj('P0')],
                         'self._bytes_left': 50}, {'done': done}, on_call)
                except NotEvaluable as exc:
                    rep.error('C12.R1', 'not-evaluable', str(exc))
                    return
                for extra, o in outs:
                    _rows(tasks, o, extra, rows, bad)
    rep.count('eval.parallel_io_states', n)
    for name in sorted(rows):
        rep.check(name not in bad, 'C12.R1', key(fi, 'row: ' + name),
                  f'holds in all {rows[name]} states', bad.get(name, ''),
                  fi.loc(fi.node))
    rep.floor('C12.R1', 'rows', len(rows), 7)
    # handlers of the result try: no bare pass, EOF handler only for EOF
    for t in ast.walk(loop):
        if isinstance(t, ast.Try) and any(is_call(c, 'result')
                                          for s in t.body for c in ast.walk(s)):
            for h in t.handlers:
                names = [dotted(e) for e in (
                    h.type.elts if isinstance(h.type, ast.Tuple)
                    else [h.type])] if h.type is not None else ['*']
                only_pass = all(isinstance(s, ast.Pass) for s in h.body)
                rep.check(not only_pass, 'C12.R1',
                          key(fi, f'handler {names}'),
                          'handler records the outcome',
                          f'`except {names}: pass` swallows a block outcome',
                          fi.loc(h))
    # _start_tasks accounting
    st = k.func('sftp._SFTPParallelIO._start_tasks')
    src = unparse(st.node)
    rep.check('self._start_task(self._offset, size)' in src and
              'self._offset += size' in src and
              'self._bytes_left -= size' in src and
              'min(self._bytes_left, self._block_size)' in src,
              'C12.R1', key(st, 'block scheduling'),
              'each block is requested at the running offset, which then '
              'advances by the block size',
              'block scheduling no longer advances offset / remaining '
              'consistently', st.loc(st.node))


def r2(k: Kit) -> None:
    rep = k.rep
    idx = k.idx
    rep.rule('C12.R2', '_SFTPFileCopier.run raises when fewer bytes than '
             'announced were copied and the transfer is not sparse; the test '
             'lies on every normal path of the local copy branch')
    fi = k.func('sftp._SFTPFileCopier.run')
    chk = None
    for x in ast.walk(fi.node):
        if isinstance(x, ast.If) and 'self._bytes_copied' in unparse(x.test) \
                and 'self._total_bytes' in unparse(x.test):
            chk = x
    if chk is None:
        rep.violation('C12.R2', key(fi, 'total-bytes check'),
                      'no comparison of copied and announced size: a source '
                      'that ends early yields a truncated file reported as '
                      'success', fi.loc(fi.node))
        return
    bad = None
    for copied in (10, 7, 12):
        for sparse in (False, True):
            try:
                o = evaluate(idx, fi.module, [chk],
                             {'self._bytes_copied': copied,
                              'self._total_bytes': 10,
                              'self._sparse': sparse,
                              'self._srcpath': b's'}, {},
                             lambda nm, a, e: Obj('x'))
            except NotEvaluable as exc:
                rep.error('C12.R2', 'not-evaluable', str(exc))
                return
            want = copied != 10 and not sparse
            if (o.kind == 'raise') != want:
                bad = bad or f'copied={copied} sparse={sparse}: {o}'
    rep.check(bad is None, 'C12.R2', key(fi, 'early EOF is an error'),
              'raise ⇔ copied ≠ announced ∧ ¬sparse',
              f'size check is wrong: {bad}', fi.loc(chk))
    # placed after the copy loops of the non-remote branch
    g = k.cfg(fi)
    atoms = [a for a in g.nodes if a.kind == 'atom' and a.ast is not None and
             'self._bytes_copied' in names_read(a.ast) and
             'self._total_bytes' in names_read(a.ast)]
    iters = [n for n, c in k.calls_named(fi, 'iter', 'self')]
    okp = bool(atoms) and bool(iters) and all(
        g.path(i.id, g.exit, blocked_nodes=[a.id for a in atoms],
               follow_exc=False) is None for i in iters)
    rep.check(okp, 'C12.R2', key(fi, 'check after the copy'),
              'every normal exit of the block copy passes the size check',
              'the block copy can finish without the size check',
              fi.loc(fi.node))
    # bytes counted are the bytes reported by the block tasks
    src = unparse(fi.node)
    rep.check('self._bytes_copied += datalen' in src, 'C12.R2',
              key(fi, 'count what was copied'),
              'progress counts the bytes each block reported',
              'bytes_copied no longer counts block results', fi.loc(fi.node))
    rt = k.func('sftp._SFTPFileCopier.run_task')
    g = k.cfg(rt)
    rd = k.rd(rt)
    rets = [x for x in g.nodes if x.kind == 'return']
    okr = False
    for r in rets:
        deps = depends_on(g, rd, r.id, r.ast.value)
        okr = 'data' in deps and 'len' in deps
    wr = [c for c in walk_shallow(rt.node) if is_call(c, 'write')]
    okw = len(wr) == 1 and [dotted(a) for a in wr[0].args] == ['data',
                                                               'offset']
    rdc = [c for c in walk_shallow(rt.node) if is_call(c, 'read')]
    okrd = len(rdc) == 1 and [dotted(a) for a in rdc[0].args] == ['size',
                                                                 'offset']
    rep.check(okr and okw and okrd, 'C12.R2', key(rt, 'block copy'),
              'block read at (size, offset), written at the same offset, '
              'length of what was read reported',
              'block copy reads/writes at different positions or reports a '
              'wrong length', rt.loc(rt.node))


def r3(k: Kit) -> None:
    rep = k.rep
    rep.rule('C12.R3', 'reassembly stores each block at the position given '
             'by its request offset; parallel writes slice the data by '
             'request offset; the client file offset advances by the number '
             'of bytes transferred (encoded length for text)')
    rr = k.func('sftp._SFTPFileReader.run')
    g = k.cfg(rr)
    rd = k.rd(rr)
    stores = [n for n in g.nodes if isinstance(n.ast, ast.Assign) and any(
        isinstance(t, ast.Subscript) and dotted(t.value) == 'result'
        for t in n.ast.targets)]
    rep.floor('C12.R3', 'reassembly stores', len(stores), 1)
    for n in stores:
        t = [t for t in n.ast.targets if isinstance(t, ast.Subscript)][0]
        deps = depends_on(g, rd, n.id, t.slice)
        lf = None
        if isinstance(t.slice, ast.Slice) and t.slice.lower is not None:
            def subst(e):
                d = dotted(e)
                if d and not d.startswith('self.'):
                    ds = rd.defs_of(n.id, d)
                    if len(ds) == 1 and next(iter(ds)) >= 0:
                        return rd.def_value(next(iter(ds)), d)
                return None
            lf = linear(t.slice.lower, subst)
        rep.check('offset' in deps and lf is not None and
                  lin_eq(lf, {'offset': 1, 'self._start': -1}), 'C12.R3',
                  key(rr, 'store position'),
                  'block stored at (request offset − start)',
                  'reassembly position does not derive from the block\'s '
                  'request offset (out-of-order replies corrupt the result)',
                  k.loc(rr, n))
        rep.check(dotted(n.ast.value) == 'data', 'C12.R3',
                  key(rr, 'store data'), 'the block\'s data is stored',
                  'something else than the block data is stored',
                  k.loc(rr, n))
    wt = k.func('sftp._SFTPFileWriter.run_task')
    g = k.cfg(wt)
    rd = k.rd(wt)
    for n, c in k.calls_named(wt, 'write'):
        args = c.args
        okw = len(args) == 3 and dotted(args[1]) == 'offset' and \
            isinstance(args[2], ast.Subscript) and \
            dotted(args[2].value) == 'self._data'
        lo = hi = None
        if okw and isinstance(args[2].slice, ast.Slice):
            def subst(e):
                d = dotted(e)
                if d and not d.startswith('self.'):
                    ds = rd.defs_of(n.id, d)
                    if len(ds) == 1 and next(iter(ds)) >= 0:
                        return rd.def_value(next(iter(ds)), d)
                return None
            lo = linear(args[2].slice.lower, subst)
            hi = linear(args[2].slice.upper, subst)
        rep.check(okw and lin_eq(lo, {'offset': 1, 'self._start': -1}) and
                  lin_eq(hi, {'offset': 1, 'self._start': -1, 'size': 1}),
                  'C12.R3', key(wt, 'write slice'),
                  'block written at its offset with data[offset−start : +size]',
                  'parallel write sends the wrong slice for its offset',
                  k.loc(wt, n))
    for qual, lenof in (('sftp.SFTPClientFile.write', 'data_bytes'),
                        ('sftp.SFTPClientFile.read', 'data')):
        f = k.func(qual)
        g = k.cfg(f)
        rd = k.rd(f)
        sts = [(n, v) for n, v in k.stores_to(f, 'self._offset')
               if v is not None and not (isinstance(v, ast.Constant))]
        rep.floor('C12.R3', f'{f.name} offset stores', len(sts), 1)
        for n, v in sts:
            e = v.orelse if isinstance(v, ast.IfExp) else v

            def subst(x, n=n):
                d = dotted(x)
                if d and not d.startswith('self.') and d != 'offset':
                    ds = rd.defs_of(n.id, d)
                    if len(ds) == 1 and next(iter(ds)) >= 0:
                        return rd.def_value(next(iter(ds)), d)
                return None
            lf = linear(e, subst)
            rep.check(lin_eq(lf, {'offset': 1, f'len({lenof})': 1}),
                      'C12.R3', key(f, 'offset advance'),
                      f'file position advances by len({lenof})',
                      f'{f.name}: file position advances by {lf}, not by the '
                      f'number of bytes transferred (len({lenof})): the next '
                      'sequential access lands at the wrong place',
                      k.loc(f, n))


def r4(k: Kit) -> None:
    rep = k.rep
    rep.rule('C12.R4', 'the copier closes source and destination in a '
             'finally block covering the whole transfer')
    fi = k.func('sftp._SFTPFileCopier.run')
    tries = [t for t in walk_shallow(fi.node) if isinstance(t, ast.Try) and
             t.finalbody]
    ok = False
    for t in tries:
        closes = {dotted(c.func.value) for s in t.finalbody
                  for c in ast.walk(s) if is_call(c, 'close')}
        opens = [c for s in t.body for c in ast.walk(s) if is_call(c, 'open')]
        if {'self._src', 'self._dst'} <= closes and len(opens) >= 2:
            ok = True
    rep.check(ok, 'C12.R4', key(fi, 'finally closes both'),
              'both files closed on every exit',
              'a file stays open when the copy fails', fi.loc(fi.node))


def r5(k: Kit) -> None:
    """A read that is not split and retried stays within the server's
    advertised maximum read length."""
    rep = k.rep
    rep.rule('C12.R5', 'SFTPClientFile.read sends a single, un-retried READ '
             'only when the size is bounded by the server\'s max_read_len '
             '(or the caller disabled block reads with block_size 0); a '
             'larger span goes through the parallel reader, which re-requests '
             'short replies')
    fi = k.func('sftp.SFTPClientFile.read')
    g = k.cfg(fi)
    rd = k.rd(fi)
    direct = [(n, c) for n, c in k.calls_named(fi, 'read')
              if dotted(c.func.value) == 'self._handler']
    rep.floor('C12.R5', 'direct READ sites', len(direct), 1)
    for n, c in direct:
        size_arg = dotted(c.args[2]) if len(c.args) > 2 else None

        def val(x, size_arg=size_arg):
            a = x.ast
            if x.kind != 'atom':
                return None
            if dotted(a) == 'self.read_len':
                return False
            if isinstance(a, ast.Compare) and len(a.ops) == 1 and \
                    isinstance(a.ops[0], (ast.Gt, ast.GtE)) and \
                    dotted(a.left) == size_arg:
                deps = depends_on(g, rd, x.id, a.comparators[0])
                if any(d.endswith('limits.max_read_len') for d in deps):
                    return False
            if isinstance(a, ast.Compare) and len(a.ops) == 1 and \
                    isinstance(a.ops[0], (ast.Lt, ast.LtE)) and \
                    dotted(a.left) == size_arg:
                deps = depends_on(g, rd, x.id, a.comparators[0])
                if any(d.endswith('limits.max_read_len') for d in deps):
                    return True
            return None
        w = g.guarded_by(n.id, val)
        rep.check(w is None, 'C12.R5', key(fi, 'single READ within the '
                                           'server limit'),
                  'the un-split READ is reached only when size <= '
                  'max_read_len (or block reads are disabled)',
                  'a single READ larger than the server\'s max_read_len can '
                  'be sent without the short-read retry: a server that '
                  'clamps replies to its limit makes read() return a prefix '
                  'with no error', k.loc(fi, n),
                  g.describe_path(w) if w else None)


def r6(k: Kit) -> None:
    """Sparse-file range requests keep their window end."""
    rep = k.rep
    rep.rule('C12.R6', 'SFTPClientFile.request_ranges: every follow-up '
             'request covers exactly the rest of the caller\'s span: '
             'next_offset + next_length == offset + length is an inductive '
             'invariant of the request loop (linear forms, assignments of '
             'the loop body applied in order)')
    fi = k.func('sftp.SFTPClientFile.request_ranges')
    loops = [x for x in ast.walk(fi.node) if isinstance(x, ast.While)]
    calls = [c for c in ast.walk(fi.node) if isinstance(c, ast.Call) and
             is_call(c, 'request_ranges') and len(c.args) == 3]
    if len(loops) != 1 or len(calls) != 1:
        rep.error('C12.R6', key(fi, 'shape'), 'request loop not recognised')
        return
    loop, call = loops[0], calls[0]
    a_off, a_len = dotted(call.args[1]), dotted(call.args[2])
    if not a_off or not a_len:
        rep.error('C12.R6', key(fi, 'shape'), 'request arguments are not '
                  'plain variables')
        return
    inloop = {id(x) for x in ast.walk(loop)}

    def assigns(nodes):
        out = [x for x in nodes if isinstance(x, (ast.Assign, ast.AugAssign))
               and isinstance(x.targets[0] if isinstance(x, ast.Assign)
                              else x.target, ast.Name)]
        return sorted(out, key=lambda x: (x.lineno, x.col_offset))

    def run(store, stmts):
        for st in stmts:
            tgt = (st.targets[0] if isinstance(st, ast.Assign)
                   else st.target).id
            rhs = linear(st.value, lambda e: None)
            if rhs is None:
                store[tgt] = {f'?{tgt}@{st.lineno}': 1}
                continue
            # substitute current store
            val = {}
            for sym, co in rhs.items():
                rep_ = store.get(sym) if sym else None
                for s2, c2 in (rep_ or {sym: 1}).items():
                    val[s2] = val.get(s2, 0) + co * c2
            if isinstance(st, ast.AugAssign):
                sign = 1 if isinstance(st.op, ast.Add) else \
                    -1 if isinstance(st.op, ast.Sub) else None
                if sign is None:
                    store[tgt] = {f'?{tgt}@{st.lineno}': 1}
                    continue
                old = dict(store.get(tgt, {tgt: 1}))
                for s2, c2 in val.items():
                    old[s2] = old.get(s2, 0) + sign * c2
                val = old
            store[tgt] = {s2: c2 for s2, c2 in val.items() if c2 != 0}
        return store

    def total(store):
        out = {}
        for v in (a_off, a_len):
            for s2, c2 in store.get(v, {v: 1}).items():
                out[s2] = out.get(s2, 0) + c2
        return {s2: c2 for s2, c2 in out.items() if c2 != 0}
    want = {'offset': 1, 'length': 1}
    pre = assigns([x for x in ast.walk(fi.node) if id(x) not in inloop])
    base = run({}, pre)
    ok_base = total(base) == want
    # step: assume the invariant, apply the loop body's assignments
    step0 = dict(base)
    step0[a_off] = {'NO': 1}
    step0[a_len] = {'offset': 1, 'length': 1, 'NO': -1}
    body = assigns([x for x in ast.walk(loop)])
    step = run(step0, body)
    ok_step = total(step) == want
    rep.check(ok_base, 'C12.R6', key(fi, 'window end: first request'),
              'first request covers offset .. offset+length',
              f'first ranges request covers {total(base)}, not '
              'offset + length', fi.loc(call))
    rep.check(ok_step, 'C12.R6', key(fi, 'window end preserved'),
              'next_offset + next_length == offset + length after every '
              'iteration',
              f'after one iteration the request window ends at '
              f'{total(step)} instead of offset + length: from the second '
              'follow-up request on the window is too short, the server '
              'reports at_end early and the tail of a sparse file is '
              'silently dropped', fi.loc(call))


def r7(k: Kit) -> None:
    """Sparse copies reproduce a trailing hole."""
    rep = k.rep
    rep.rule('C12.R7', '_SFTPFileCopier.run: in a sparse copy only data '
             'ranges are written, so every normal path from the range loops '
             'to the end of run() either sets the destination size from the '
             'announced total (setstat / truncate with _total_bytes), or has '
             'established that the last range reached the total, or is a '
             'non-sparse copy (whose byte count is checked instead)')
    fi = k.func('sftp._SFTPFileCopier.run')
    g = k.cfg(fi)
    rd = k.rd(fi)
    loops = [n for n in g.nodes if n.kind == 'loop' and
             isinstance(n.ast, ast.AsyncFor) and
             dotted(n.ast.iter) == 'ranges']
    rep.floor('C12.R7', 'range loops', len(loops), 2)
    sizeset = set()
    for n in g.nodes:
        for c in g.calls_at(n):
            if isinstance(c.func, ast.Attribute) and \
                    c.func.attr in ('setstat', 'truncate', 'fsetstat') and \
                    'self._total_bytes' in names_read(c):
                sizeset.add(n.id)

    def blocked(a, b, label):
        x = g.nodes[a]
        e = x.ast
        if x.kind != 'atom':
            return False
        if dotted(e) == 'self._sparse':
            return label is False            # non-sparse path: other rule
        if isinstance(e, ast.Compare) and len(e.ops) == 1 and \
                dotted(e.comparators[0]) == 'self._total_bytes' and \
                isinstance(e.ops[0], ast.Lt) and \
                isinstance(e.left, ast.Name):
            return label is False            # last range reached the end
        return False
    for li, lp in enumerate(loops):
        w = g.path(lp.id, g.exit, blocked_nodes=sizeset, follow_exc=False,
                   blocked_edge=blocked)
        rep.check(w is None, 'C12.R7',
                  key(fi, f'destination size after range loop #{li + 1}'),
                  'a sparse copy ends by making the destination as long as '
                  'the source unless the last range already reached it',
                  'a sparse copy can finish without ever setting the '
                  'destination length: a source ending in a hole (or being '
                  'one hole) yields a destination cut at the last data '
                  'range, and success is reported', k.loc(fi, lp),
                  g.describe_path(w) if w else None)


def r8(k: Kit) -> None:
    """v3 open flags -> v5/v6 disposition keeps their meaning."""
    rep = k.rep
    idx = k.idx
    rep.rule('C12.R8', '_pflags_to_flags evaluated for all 64 combinations '
             'of READ/WRITE/APPEND/CREAT/TRUNC/EXCL: the v5/v6 disposition '
             'truncates iff TRUNC was asked for, creates iff CREAT, is '
             'CREATE_NEW iff CREAT|EXCL, appends iff APPEND, and the access '
             'mask carries read / write exactly as requested (a \'wb\' open '
             'over a longer file must truncate it on every protocol version)')
    fi = k.func('sftp._pflags_to_flags')
    C = lambda n_: idx.const('sftp', n_)
    names = ('FXF_READ', 'FXF_WRITE', 'FXF_APPEND', 'FXF_CREAT', 'FXF_TRUNC',
             'FXF_EXCL', 'FXF_ACCESS_DISPOSITION', 'FXF_CREATE_NEW',
             'FXF_CREATE_TRUNCATE', 'FXF_OPEN_EXISTING', 'FXF_OPEN_OR_CREATE',
             'FXF_TRUNCATE_EXISTING', 'FXF_APPEND_DATA', 'ACE4_READ_DATA',
             'ACE4_WRITE_DATA', 'ACE4_APPEND_DATA')
    c = {n_: C(n_) for n_ in names}
    if any(not isinstance(v, int) for v in c.values()):
        rep.error('C12.R8', 'constants', 'flag constants not foldable')
        return
    body = [st for st in fi.node.body if not (
        isinstance(st, ast.Expr) and isinstance(st.value, ast.Constant))]
    bad = None
    n = 0
    for bits in range(64):
        pf = 0
        for i, nm in enumerate(names[:6]):
            if bits >> i & 1:
                pf |= c[nm]
        n += 1
        try:
            o = evaluate(idx, fi.module, body, {}, {'pflags': pf},
                         lambda a, b, e: Obj('x'))
        except NotEvaluable as exc:
            rep.error('C12.R8', 'not-evaluable', str(exc))
            return
        if o.kind != 'return' or not isinstance(o.value, tuple) or \
                len(o.value) != 2 or not all(isinstance(x, int)
                                             for x in o.value):
            bad = bad or f'pflags {pf:#x}: result {o.value!r} not concrete'
            continue
        access, flags = o.value
        disp = flags & c['FXF_ACCESS_DISPOSITION']
        creat = bool(pf & c['FXF_CREAT'])
        trunc = bool(pf & c['FXF_TRUNC'])
        excl = bool(pf & c['FXF_EXCL'])
        creates = disp in (c['FXF_CREATE_NEW'], c['FXF_CREATE_TRUNCATE'],
                           c['FXF_OPEN_OR_CREATE'])
        truncs = disp in (c['FXF_CREATE_TRUNCATE'],
                          c['FXF_TRUNCATE_EXISTING'])
        what = None
        if creates != creat:
            what = 'creates' if creates else 'does not create'
        elif creat and excl and disp != c['FXF_CREATE_NEW']:
            what = 'is not CREATE_NEW for CREAT|EXCL'
        elif not (creat and excl) and disp == c['FXF_CREATE_NEW']:
            what = 'fails on an existing file without EXCL'
        elif not (creat and excl) and truncs != trunc:
            what = 'truncates' if truncs else \
                'does not truncate an existing file'
        elif bool(flags & c['FXF_APPEND_DATA']) != bool(pf & c['FXF_APPEND']):
            what = 'append flag differs'
        elif bool(access & c['ACE4_READ_DATA']) != bool(pf & c['FXF_READ']) \
                or bool(access & c['ACE4_WRITE_DATA']) != \
                bool(pf & c['FXF_WRITE']):
            what = 'access mask differs from READ/WRITE'
        if what:
            bad = bad or (f'pflags {pf:#04x} (CREAT={creat} TRUNC={trunc} '
                          f'EXCL={excl}) maps to disposition {disp}: {what}')
    rep.count('eval.pflags_cases', n)
    rep.check(bad is None, 'C12.R8', key(fi, 'open flag table'),
              f'{n} flag combinations keep their meaning on v5/v6',
              f'{bad}: on an SFTPv5/v6 session the file is opened with other '
              'semantics than on v3 (e.g. \'wb\' leaves the old tail of a '
              'longer file) and the transfer still reports success',
              fi.loc(fi.node))


def r9(k: Kit) -> None:
    """Server-side copy-data: short reads are continued, not taken for EOF."""
    rep = k.rep
    rep.rule('C12.R9', '_process_copy_data (used by SFTPClient.copy when the '
             'server supports copy-data): both offsets and the remaining '
             'length advance by the number of bytes actually read '
             '(len(data), linear forms), and the loop is left early only '
             'when a read returned nothing: a short read from the '
             'application\'s read() is not the end of the file')
    fi = k.func('sftp.SFTPServerHandler._process_copy_data')
    g = k.cfg(fi)
    n = 0
    for var, sign in (('read_from_offset', 1), ('write_to_offset', 1),
                      ('read_from_length', -1)):
        for x in ast.walk(fi.node):
            if isinstance(x, ast.AugAssign) and dotted(x.target) == var:
                n += 1
                lf = linear(x.value)
                want = {'len(data)': 1}
                oks = isinstance(x.op, ast.Add if sign > 0 else ast.Sub) and \
                    lf is not None and \
                    {kk: v for kk, v in lf.items() if v} == want
                rep.check(oks, 'C12.R9', key(fi, f'{var} advances by the '
                                             'bytes read'),
                          f'{var} {"+" if sign > 0 else "-"}= len(data)',
                          f'`{norm(x)}`: {var} moves by the requested block '
                          'size, not by the bytes actually read; after a '
                          'short read the copy skips / duplicates data',
                          fi.loc(x))
    rep.floor('C12.R9', 'copy loop position updates', n, 3)
    for b in g.nodes:
        if b.kind == 'stmt' and isinstance(b.ast, ast.Break):
            w = g.guarded_by(b.id, lambda x: False if x.kind == 'atom' and
                             dotted(x.ast) == 'data' else (
                                 True if x.kind == 'atom' and
                                 isinstance(x.ast, ast.Compare) and
                                 norm(x.ast) in ('len(data) == 0',)
                                 else None))
            rep.check(w is None, 'C12.R9', key(fi, 'loop left only at EOF'),
                      'break only when the read returned no data',
                      'the copy loop is left when a read returns fewer bytes '
                      'than requested: with a server whose read() returns '
                      'short blocks copy() ends after the first block and '
                      'reports success', k.loc(fi, b),
                      g.describe_path(w) if w else None)
    copy_loop_progress(k, 'C12.R9')


def copy_loop_progress(k: Kit, rule: str) -> None:
    """Shared with C10.R14: an empty read ends the copy loop."""
    rep = k.rep
    fi = k.func('sftp.SFTPServerHandler._process_copy_data')
    g = k.cfg(fi)
    reads = [n for n, c in k.calls_named(fi, 'read', 'self._server')]
    rep.floor(rule, 'copy loop reads', len(reads), 1)
    for rd in reads:
        loop = idx_enclosing_while(None, rd.ast)
        if loop is None:
            rep.violation(rule, key(fi, 'copy loop'), 'read is not in a loop',
                          k.loc(fi, rd))
            continue
        first = g.node_for(loop.test if not isinstance(loop.test, ast.BoolOp)
                           else loop.test.values[0])
        w = g.guarded_by(first.id, lambda x: True if x.kind == 'atom' and
                         dotted(x.ast) == 'data' else (
                             False if x.kind == 'atom' and
                             isinstance(x.ast, ast.Compare) and
                             norm(x.ast) in ('len(data) == 0',) else None),
                         start=rd.id)
        rep.check(w is None, rule, key(fi, 'empty read ends the loop'),
                  'the loop test is reached again only when the read '
                  'returned data',
                  'the copy loop goes round again after a read that returned '
                  'nothing: a request whose length exceeds the source file '
                  'never finishes (with a synchronous SFTPServer the event '
                  'loop is blocked for good)', k.loc(fi, rd),
                  g.describe_path(w) if w else None)


def idx_enclosing_while(_unused, node):
    from ..index import enclosing
    return enclosing(node, (ast.While,))


def r10(k: Kit) -> None:
    """End of file is asked of the server each time it is needed."""
    rep = k.rep
    rep.rule('C12.R10', 'SFTPClientFile._end (read-to-end, tell / seek '
             'relative to the end, default truncate size) returns a size '
             'obtained from self.stat() in the same call on every path: a '
             'size remembered across calls is stale after an append-mode '
             'write (whose offset is a placeholder), a write through another '
             'handle or by the server side')
    fi = k.func('sftp.SFTPClientFile._end')
    g = k.cfg(fi)
    st = [n.id for n, c in k.calls_named(fi, 'stat', 'self')]
    rets = [n for n in g.nodes if isinstance(n.ast, ast.Return)]
    rep.floor('C12.R10', 'returns of _end', len(rets), 1)
    for r in rets:
        w = g.must_pass(st, dst=r.id)
        rep.check(bool(st) and w is None, 'C12.R10',
                  key(fi, 'size from a fresh stat'),
                  'every path to the return passes self.stat()',
                  '_end() can return without asking the server: read() to '
                  'end of file returns a prefix and seek(SEEK_END) / '
                  'truncate() work on a stale size after the file grew',
                  k.loc(fi, r), g.describe_path(w) if w else None)


def r11(k: Kit) -> None:
    """Position arithmetic of SFTPClientFile.seek."""
    from ..absint import evaluate, Obj, NotEvaluable
    rep = k.rep
    idx = k.idx
    rep.rule('C12.R11', 'SFTPClientFile.seek evaluated over the current '
             'position {unknown (append mode), 0, 5} x {SEEK_SET, SEEK_CUR, '
             'SEEK_END}: the new position is offset, position + offset (end '
             'of file + offset only when the position is unknown) and end + '
             'offset - position 0 is a position, not "unknown"')
    fi = k.func('sftp.SFTPClientFile.seek')
    body = [st for st in fi.node.body if not (
        isinstance(st, ast.Expr) and isinstance(st.value, ast.Constant))]
    consts = {nm: idx.fold_name(fi.module, nm)
              for nm in ('SEEK_SET', 'SEEK_CUR', 'SEEK_END')}
    bad = None
    n = 0
    for cur in (None, 0, 5):
        for nm, whence in consts.items():
            n += 1
            try:
                o = evaluate(idx, fi.module, body,
                             {'self._offset': cur, 'self._handle': b'H'},
                             {'offset': 4, 'from_what': whence},
                             lambda f, a, e: 100 if f == 'self._end'
                             else Obj('x'))
            except NotEvaluable as exc:
                rep.error('C12.R11', key(fi, 'not-evaluable'), str(exc))
                return
            want = {'SEEK_SET': 4, 'SEEK_CUR': (100 if cur is None else cur)
                    + 4, 'SEEK_END': 104}[nm]
            got = o.value if o.kind == 'return' else o.kind
            if got != want and bad is None:
                bad = (f'position {cur!r}, seek(4, {nm}): {got!r}, expected '
                       f'{want} - the next read() returns the wrong bytes '
                       'and write() lands past the end, silently')
    rep.count('eval.seek_states', n)
    rep.check(bad is None, 'C12.R11', key(fi, 'seek table'), f'{n} states',
              str(bad), fi.loc(fi.node))


def r12(k: Kit) -> None:
    """FX_EOF ends a read, never a write."""
    from ..index import parent
    rep = k.rep
    rep.rule('C12.R12', 'the parallel I/O loop treats SFTPEOFError from any '
             'block task as the clean end of the data; that is right for '
             'READ only, so SFTPClientHandler.write turns an EOF status '
             'answering FXP_WRITE into a failure before it can reach the '
             'loop - otherwise write() / put() / copy() report success with '
             'the blocks after the first such answer missing')
    it = k.func('sftp._SFTPParallelIO.iter')
    swallow = [h for t in ast.walk(it.node) if isinstance(t, ast.Try)
               for h in t.handlers if h.type is not None and
               'SFTPEOFError' in unparse(h.type) and
               not any(isinstance(x, ast.Raise) for x in ast.walk(h))]
    if not swallow:
        rep.ok('C12.R12', key(it, 'EOF not swallowed by the I/O loop'),
               'no handler ends the iteration on SFTPEOFError')
        return
    wr = k.func('sftp.SFTPClientHandler.write')
    sites = [c for c in ast.walk(wr.node) if isinstance(c, ast.Call) and
             is_call(c, '_make_request', 'self')]
    rep.floor('C12.R12', 'write request sites', len(sites), 1)
    for c in sites:
        ok = False
        x = c
        while x is not None and x is not wr.node:
            x = parent(x)
            if isinstance(x, ast.Try):
                for h in x.handlers:
                    if h.type is not None and \
                            'SFTPEOFError' in unparse(h.type) and any(
                                isinstance(r, ast.Raise) and r.exc is not None
                                and 'EOF' not in unparse(r.exc).split('(')[0]
                                for r in ast.walk(h)):
                        ok = True
        rep.check(ok, 'C12.R12', key(wr, 'EOF reply to a write is a failure'),
                  'SFTPEOFError from FXP_WRITE is re-raised as another '
                  'SFTPError',
                  'a server answering WRITE blocks with FX_EOF makes '
                  'f.write(64 KiB) return 65536 with only the first blocks '
                  'in the file: _SFTPParallelIO.iter takes the EOF of a '
                  'writer task for the end of the data', wr.loc(c))


def r13(k: Kit) -> None:
    """read() to end of file goes through the block reader."""
    rep = k.rep
    rep.rule('C12.R13', 'SFTPClientFile.read: once the size has been '
             'replaced by "end of file - offset" (size < 0: everything up to '
             'the end), the single un-retried handler.read() is not '
             'reachable - also when parallel block reads are disabled '
             '(block_size None / 0): the request goes through '
             '_SFTPFileReader, which re-requests the remainder of a short '
             'reply - a server may return fewer bytes than asked for at any '
             'time, and every server caps one READ')
    fi = k.func('sftp.SFTPClientFile.read')
    g = k.cfg(fi)
    ends = [n for n, c in k.calls_named(fi, '_end', 'self')]
    direct = [n for n, c in k.calls_named(fi, 'read', 'self._handler')]
    rep.floor('C12.R13', 'read-to-end size computations', len(ends), 1)
    rep.floor('C12.R13', 'single READ sites', len(direct), 1)

    rd = k.rd(fi)
    for e in ends:
        # flags known to be true where the end-of-file size is computed
        # (assigned once, and the computation is reached only on their
        # true edge): their false edge is infeasible afterwards
        known = set()
        for a in g.nodes:
            v = a.ast.id if a.kind == 'atom' and isinstance(a.ast, ast.Name) \
                else None
            if v is None or v in known:
                continue
            ndefs = [n for n in g.nodes
                     if any(nm == v for nm, _ in rd.defs[n.id])]
            if len(ndefs) == 1 and g.guarded_by(
                    e.id, lambda x, v=v: True if x.kind == 'atom' and
                    isinstance(x.ast, ast.Name) and x.ast.id == v
                    else None) is None:
                known.add(v)

        def blocks_off(x: Node, known=known) -> Optional[bool]:
            if x.kind == 'atom' and isinstance(x.ast, ast.Name) and \
                    x.ast.id in known:
                return False
            return None
        for d in direct:
            w = g.guarded_by(d.id, blocks_off, start=e.id)
            rep.check(w is None, 'C12.R13',
                      key(fi, 'read to end survives short replies'),
                      'no path from the end-of-file size to a single READ',
                      'read() with size -1 ("all data up to the end of the '
                      'file") issues one READ when the file fits a block and '
                      'returns whatever came back: with a server that '
                      'answers at most 4096 bytes per READ a 10000-byte file '
                      'reads as 4096 bytes, no error (with block_size=None '
                      'a 5 MiB file reads as the 4 MiB one READ may carry)',
                      k.loc(fi, d),
                      g.describe_path(w) if w else None)


def r14(k: Kit) -> None:
    """Source and destination are not mixed up on the way to the wire."""
    rep = k.rep
    idx = k.idx
    rep.rule('C12.R14', 'every call of SFTPClientHandler.copy_data passes, '
             'in the read_from_* positions, expressions about the source '
             '(src / read_from / offset of the block) and in the write_to_* '
             'positions expressions about the destination: a range copied '
             'to another offset of the destination must land there')
    callee = k.func('sftp.SFTPClientHandler.copy_data')
    params = [p for p in callee.params if p != 'self']
    n = 0
    for fi in idx.iter_funcs(['sftp']):
        for c in ast.walk(fi.node):
            if not (isinstance(c, ast.Call) and is_call(c, 'copy_data') and
                    len(c.args) == len(params)):
                continue
            if fi.qual == callee.qual:
                continue
            n += 1
            bad = None
            for pname, a in zip(params, c.args):
                txt = norm(a)
                role = 'src' if pname.startswith('read_from') else 'dst'
                other = 'dst' if role == 'src' else 'src'
                names = names_read(a) | {txt}
                if any(other in x for x in names) and \
                        not any(role in x for x in names):
                    bad = bad or f'{pname} is given `{txt}`'
            rep.check(bad is None, 'C12.R14',
                      key(fi, f'copy_data arguments L{c.lineno}'),
                      'source values in read_from_*, destination values in '
                      'write_to_*', f'{bad}: the copied range is written at '
                      'the wrong place in the destination and success is '
                      'reported', fi.loc(c))
    rep.floor('C12.R14', 'copy_data call sites', n, 1)


def r16(k: Kit) -> None:
    """The server writes all of a WRITE or fails it."""
    rep = k.rep
    rep.rule('C12.R16', 'SFTPServer.write: the server opens its files '
             'unbuffered (buffering=0 in open / open56), so one write() may '
             'be partial; the count it returns is acted on - the write is '
             'repeated until everything is written (or the count is '
             'tested) - because FXP_WRITE and copy-data can only answer OK '
             'or an error for the whole request and their handlers ignore '
             'the returned count')
    raw = 0
    for q in ('sftp.SFTPServer.open', 'sftp.SFTPServer.open56'):
        if not k.idx.has_func(q):
            continue
        fo = k.func(q)
        for n, c in k.call_nodes(fo, lambda c: isinstance(c.func, ast.Name)
                                 and c.func.id == 'open'):
            if any(kw.arg == 'buffering' and isinstance(
                    kw.value, ast.Constant) and kw.value.value == 0
                    for kw in c.keywords):
                raw += 1
    rep.count('instances.unbuffered_opens', raw)
    fi = k.func('sftp.SFTPServer.write')
    g = k.cfg(fi)
    rd = k.rd(fi)
    wr = [(n, c) for n, c in k.calls_named(fi, 'write', 'file_obj')]
    rep.floor('C12.R16', 'file writes in SFTPServer.write', len(wr), 1)
    if not raw:
        rep.ok('C12.R16', key(fi, 'short write is not success'),
               'files are opened buffered: a buffered write is complete or '
               'raises')
        return
    for n, c in wr:
        looped = any(lab != 'exc' and (b == n.id or
                                       g.path(b, n.id, follow_exc=False))
                     for b, lab in g.succ[n.id])
        tested = False
        defs = {nm for nm, v in rd.defs[n.id]}
        for a in g.nodes:
            if a.kind == 'atom' and a.ast is not None and \
                    g.path(n.id, a.id, follow_exc=False) and \
                    defs & depends_on(g, rd, a.id, a.ast):
                tested = True
        rep.check(looped or tested, 'C12.R16',
                  key(fi, 'short write is not success'),
                  'the write is repeated / its count tested',
                  'one unbuffered write() whose count is returned to '
                  'handlers that ignore it: when the file system takes only '
                  'part of a block (RLIMIT_FSIZE, quota, disk full) put() '
                  'and copy() report success for a truncated destination',
                  k.loc(fi, n))


def r17(k: Kit) -> None:
    """copy-data of a stated length fails when the source ends early."""
    rep = k.rep
    rep.rule('C12.R17', 'SFTPServerHandler._process_copy_data: when a '
             'length was given (not "to end of file"), running out of '
             'source data ends the request with an error, not with OK - '
             'the client asked for exactly that many bytes and takes OK as '
             '"all copied"')
    fi = k.func('sftp.SFTPServerHandler._process_copy_data')
    g = k.cfg(fi)
    empties = [a for a in g.nodes if a.kind == 'atom' and
               dotted(a.ast) == 'data']
    rep.floor('C12.R17', 'end-of-source tests', len(empties), 1)

    def to_end(x: Node) -> Optional[bool]:
        if x.kind == 'atom' and dotted(x.ast) == 'read_to_end':
            return True
        return None
    for a in empties:
        bad = None
        for b, lab in g.succ[a.id]:
            if lab is not False:
                continue
            w = g.guarded_by(g.exit, to_end, start=b,
                             extra_blocked=[a.id])
            bad = bad or w
        rep.check(bad is None, 'C12.R17',
                  key(fi, 'early end of source is an error'),
                  'OK after an empty read only when reading to end of file',
                  'copy-data(length=1000000) on a source that ends after '
                  '32768 bytes is answered OK: copy(sparse=False) succeeds '
                  'with a short destination where get() raises Unexpected '
                  'EOF', k.loc(fi, a),
                  g.describe_path(bad) if bad else None)


def r18(k: Kit) -> None:
    """A block counts as read only as far as bytes came back."""
    rep = k.rep
    rep.rule('C12.R18', 'parallel reader: the count _SFTPFileReader.run_task '
             'reports for a block is len() of the data it returns - the '
             'I/O loop re-requests the rest of a block from that count, so '
             'it must not be replaced by the requested size on any reply '
             'flag; and the version 6 end-of-file flag the server puts on a '
             'DATA reply is computed from the file size (fstat), not from '
             'the reply being shorter than the request')
    rt = k.func('sftp._SFTPFileReader.run_task')
    g = k.cfg(rt)
    rets = [x for x in g.nodes if x.kind == 'return']
    rep.floor('C12.R18', 'returns of the block reader', len(rets), 1)
    for r in rets:
        v = r.ast.value
        ok = False
        if isinstance(v, ast.Tuple) and len(v.elts) == 2 and \
                dotted(v.elts[1]) is not None:
            leaves, free = expr_sources(g, k.rd(rt), r.id, v.elts[0])
            cands = [v.elts[0]] + list(leaves)
            ok = any(is_call(c, 'len') and c.args and
                     dotted(c.args[0]) == dotted(v.elts[1]) for c in cands) \
                and not any('size' in names_read(c) for c in cands)
        rep.check(ok, 'C12.R18', key(rt, 'count is what was read'),
                  'return len(data), data',
                  f'`{norm(r.ast)}`: a block can be reported complete with '
                  'fewer bytes than asked for - the remainder is never '
                  'requested and read() returns the file with zero-filled '
                  'gaps, no error', k.loc(rt, r))
    pr = k.func('sftp.SFTPServerHandler._process_read')
    g = k.cfg(pr)
    rd = k.rd(pr)
    st = [(n, v) for n, v in k.stores_to(pr, 'at_end')
          if v is not None and not (isinstance(v, ast.Constant) and
                                    v.value is False)]
    rep.floor('C12.R18', 'end-of-file flag computations', len(st), 1)
    for n, v in st:
        deps = depends_on(g, rd, n.id, v)
        ok = 'fstat' in ' '.join(deps) or any(
            d.endswith('.size') for d in deps)
        rep.check(ok and 'length' not in names_read(v), 'C12.R18',
                  key(pr, 'end-of-file flag from the file size'),
                  'at_end compares the position with the fstat size',
                  f'`at_end = {norm(v)}`: a short read is announced as end '
                  'of file - a backend that returns fewer bytes than asked '
                  '(network file system, user subclass) makes version 6 '
                  'clients stop reading early', k.loc(pr, n))


def r20(k: Kit) -> None:
    """The block reader is never built with a block size of zero."""
    rep = k.rep
    rep.rule('C12.R20', 'SFTPClientFile: every _SFTPFileReader it builds '
             'gets a block size that cannot be 0 when parallel reads were '
             'disabled (block_size None / 0 makes read_len 0): the argument '
             'is "self.read_len or <fallback>" or the construction is '
             'reached only on the true edge of a test of self.read_len - '
             'zero-length READs are answered EOF, so read_parallel() would '
             'return nothing and report nothing')
    n = 0
    for q in ('sftp.SFTPClientFile.read', 'sftp.SFTPClientFile.read_parallel'):
        fi = k.func(q)
        g = k.cfg(fi)
        for nd, c in k.calls_named(fi, '_SFTPFileReader'):
            n += 1
            a0 = c.args[0] if c.args else None

            def nonzero(e):
                return isinstance(e, ast.BoolOp) and isinstance(
                    e.op, ast.Or) and dotted(e.values[0]) == \
                    'self.read_len' and len(e.values) > 1
            ok = nonzero(a0)
            if not ok and isinstance(a0, ast.Name):
                lv, fr = expr_sources(g, k.rd(fi), nd.id, a0)
                ok = bool(lv) and all(nonzero(x) for x in lv)
            if not ok and a0 is not None and dotted(a0) == 'self.read_len':
                ok = g.guarded_by(nd.id, lambda x: True if x.kind == 'atom'
                                  and dotted(x.ast) == 'self.read_len'
                                  else None) is None
            rep.check(ok, 'C12.R20', key(fi, 'block size is never zero'),
                      'self.read_len or <fallback>, or guarded by read_len',
                      f'`_SFTPFileReader({norm(a0) if a0 is not None else ""}, '
                      '...)` can be built with block size 0: on a file '
                      'opened with block_size=0, read_parallel() of 100000 '
                      'bytes yields nothing and raises nothing',
                      k.loc(fi, nd))
    rep.floor('C12.R20', 'block reader constructions', n, 2)


def r21(k: Kit) -> None:
    """The copy-data request states the length that was announced."""
    rep = k.rep
    rep.rule('C12.R21', '_SFTPFileCopier.run, copy-data branch: the length '
             'argument of remote_copy() is the length of the range being '
             'copied, unconditionally - 0 means "to end of file" on the '
             'wire, which turns off the server\'s early-EOF error (C12.R17) '
             'and this branch has no byte count of its own')
    fi = k.func('sftp._SFTPFileCopier.run')
    g = k.cfg(fi)
    rd = k.rd(fi)
    calls = [(nd, c) for nd, c in k.calls_named(fi, 'remote_copy')]
    rep.floor('C12.R21', 'copy-data requests', len(calls), 1)
    for nd, c in calls:
        a = c.args[3] if len(c.args) > 3 else None
        from ..index import parent as _par21
        loopvar = None
        x_ = c
        while x_ is not None and x_ is not fi.node:
            x_ = _par21(x_)
            if isinstance(x_, (ast.AsyncFor, ast.For)) and isinstance(
                    x_.target, ast.Tuple) and len(x_.target.elts) == 2:
                loopvar = dotted(x_.target.elts[1])
                break
        ok = isinstance(a, ast.Name) and loopvar is not None and \
            a.id == loopvar
        rep.check(ok, 'C12.R21', key(fi, 'announced length is requested'),
                  'remote_copy(src, dst, offset, length, offset)',
                  f'the length argument is `{norm(a) if a is not None else "?"}`'
                  ': a non-sparse remote copy of a source that shrank after '
                  'the stat is answered OK and reported as success with a '
                  'short destination', k.loc(fi, nd))


def r19(k: Kit) -> None:
    """The local side of get() writes whole blocks or raises."""
    rep = k.rep
    rep.rule('C12.R19', 'LocalFile.write: the local destination is written '
             'through the buffered file object (complete or OSError); a '
             'raw os.write / os.pwrite - which may take only part of the '
             'block - is repeated or its count tested, because '
             '_SFTPFileCopier.run_task discards what write() returns')
    fi = k.func('sftp.LocalFile.write')
    g = k.cfg(fi)
    rd = k.rd(fi)
    raw = [(n, c) for n, c in k.call_nodes(fi, lambda c: dotted(c.func) in (
        'os.write', 'os.pwrite', 'os.writev', 'os.pwritev'))]
    buf = [(n, c) for n, c in k.calls_named(fi, 'write', 'self._file')]
    rep.floor('C12.R19', 'writes in LocalFile.write', len(raw) + len(buf), 1)
    for n, c in raw:
        looped = any(lab != 'exc' and (b == n.id or
                                       g.path(b, n.id, follow_exc=False))
                     for b, lab in g.succ[n.id])
        defs = {nm for nm, v in rd.defs[n.id]}
        tested = any(a.kind == 'atom' and a.ast is not None and
                     g.path(n.id, a.id, follow_exc=False) and
                     defs & depends_on(g, rd, a.id, a.ast) for a in g.nodes)
        rep.check(looped or tested, 'C12.R19',
                  key(fi, 'partial local write is not success'),
                  'raw write repeated / count tested',
                  f'`{norm(c)[:60]}` may write part of the block and its '
                  'count is returned to a caller that ignores it: get() '
                  'into a file system that fills up inside the last block '
                  '(quota, RLIMIT_FSIZE) reports success for a truncated '
                  'file', k.loc(fi, n))
    if not raw:
        rep.ok('C12.R19', key(fi, 'partial local write is not success'),
               'only buffered writes')


def run(idx, rep, tier):
    k = Kit(idx, rep)
    rep.assumptions += NOT_DECIDED
    r1(k)
    r2(k)
    r3(k)
    r4(k)
    r5(k)
    r6(k)
    r7(k)
    r8(k)
    r9(k)
    r10(k)
    r11(k)
    r12(k)
    r13(k)
    r14(k)
    r16(k)
    r17(k)
    r18(k)
    r19(k)
    r20(k)
    r21(k)
    rep.rule('C12.R15', 'SFTPClientFile.read: the size computed for a read '
             'to end of file is clamped at 0 (position past the end reads '
             'as empty): a negative size reaches UInt32() as OverflowError')
    _fi = k.func('sftp.SFTPClientFile.read')
    _g = k.cfg(_fi)
    _st = [(n, v) for n, v in k.stores_to(_fi, 'size')
           if v is not None and any(is_call(c, '_end', 'self')
                                    for c in ast.walk(v))]
    rep.floor('C12.R15', 'end-of-file size computations', len(_st), 1)
    for _n, _v in _st:
        _ok = is_call(_v, 'max') and any(
            isinstance(a, ast.Constant) and a.value == 0 for a in _v.args)
        if not _ok:
            # or a later guard on size < 0 / size <= 0
            _ok = any(a.kind == 'atom' and isinstance(a.ast, ast.Compare) and
                      dotted(a.ast.left) == 'size' and
                      isinstance(a.ast.ops[0], (ast.Lt, ast.LtE)) and
                      _g.path(_n.id, a.id) is not None for a in _g.nodes)
        rep.check(_ok, 'C12.R15', key(_fi, 'read past the end is empty'),
                  'size = max(end - offset, 0)',
                  f'`{norm(_v)}` is negative after a seek beyond the end of '
                  'the file: read() raises OverflowError (cannot convert '
                  'negative int to unsigned) instead of returning an empty '
                  'result', k.loc(_fi, _n))
    from .shared import share
    from .c14 import r7 as _c14r7
    share(k, 'C12.R22', 'a WRITE answered with anything but a status is a failure (= C14.R7): the reply type is checked for status-only requests too, so a dropped block is not counted as written', _c14r7, keep=lambda key: 'reply type' in key)
    rep.rule('C12.R23', 'SFTPClient._copy: the size handed to the block '
             'copier comes from attributes that are known to carry one - '
             'the construction is reached only past a test of '
             '"srcattrs.size is None" (whose true branch fetches the '
             'attributes with stat): a READDIR entry need not carry a '
             'size, and "size or 0" would then copy nothing and report '
             'success')
    _fcp = k.func('sftp.SFTPClient._copy')
    _gcp = k.cfg(_fcp)
    _mk = [n for n, c in k.calls_named(_fcp, '_SFTPFileCopier')]
    rep.floor('C12.R23', 'copier constructions', len(_mk), 1)
    _tst = [a.id for a in _gcp.nodes if a.kind == 'atom' and isinstance(
        a.ast, ast.Compare) and dotted(a.ast.left) == 'srcattrs.size' and
        any(isinstance(c, ast.Constant) and c.value is None
            for c in a.ast.comparators)]
    for _n in _mk:
        _w = _gcp.path(_gcp.entry, _n.id, blocked_nodes=_tst)
        rep.check(bool(_tst) and _w is None, 'C12.R23',
                  key(_fcp, 'missing size is looked up'),
                  'srcattrs.size tested for None before the copy',
                  'get(\'d\', dst, recurse=True) from a server whose '
                  'listing carries no sizes leaves every file empty and '
                  'reports success', k.loc(_fcp, _n))
    rep.rule('C12.R24', 'the length of a READ reply is held against the '
             'request: _SFTPFileReader.run_task compares len(data) with '
             'size before it reports the block (a longer reply, or an '
             'empty one for a non-empty request, is a bad message), and '
             '_SFTPFileCopier.run_task does not write an empty block - a '
             'zero-length DATA reply in the middle of a file would '
             'otherwise count as a finished block and leave a zero-filled '
             'gap with success reported')
    for _q, _what in (('sftp._SFTPFileReader.run_task', 'reply'),
                      ('sftp._SFTPFileCopier.run_task', 'block')):
        _fr = k.func(_q)
        _gr = k.cfg(_fr)
        _tests = [a.id for a in _gr.nodes if a.kind == 'atom' and
                  a.ast is not None and (
                      ('data' in names_read(a.ast) and (
                          'size' in names_read(a.ast) or
                          isinstance(a.ast, ast.UnaryOp) or
                          dotted(a.ast) == 'data')) or
                      (dotted(a.ast) == 'size' and any(
                          b.kind == 'atom' and b.ast is not None and
                          'data' in names_read(b.ast)
                          for b in _gr.nodes)))]
        _rets = [n for n in _gr.nodes if n.kind == 'return']
        _bad = None
        for _r in _rets:
            _bad = _bad or _gr.path(_gr.entry, _r.id, blocked_nodes=_tests,
                                    follow_exc=False)
        rep.check(bool(_tests) and _bad is None, 'C12.R24',
                  key(_fr, f'{_what} length checked'),
                  'a test of data against size on every path to the return',
                  'READ at offset 32768 answered with a zero-length DATA '
                  '(or with 5000 bytes too many): read() returns 66536 '
                  'bytes with that block zero-filled (or shifted), '
                  'get(sparse=True) reports success', _fr.loc(_fr.node))
    rep.rule('C12.R25', 'the SFTP server awaits whatever awaitable an '
             'SFTPServer method returns: results are tested with '
             'inspect.isawaitable, never the narrower iscoroutine - a '
             'write() returning a future (run_in_executor) must be awaited '
             'before FX_OK is sent, or its ENOSPC is lost and put() '
             'reports success with a block missing')
    _nco = 0
    for _f in k.idx.iter_funcs(['sftp']):
        if not _f.qual.startswith('sftp.SFTPServerHandler.'):
            continue
        for _c in ast.walk(_f.node):
            if isinstance(_c, ast.Call) and (dotted(_c.func) or '') in (
                    'inspect.iscoroutine', 'asyncio.iscoroutine',
                    'iscoroutine', 'inspect.iscoroutinefunction'):
                rep.violation('C12.R25', key(_f, 'awaitable results awaited'),
                              f'`{norm(_c)}` only recognises coroutines: a '
                              'future returned by the server method is '
                              'never awaited', _f.loc(_c))
            if isinstance(_c, ast.Call) and (dotted(_c.func) or '') == \
                    'inspect.isawaitable':
                _nco += 1
    rep.floor('C12.R25', 'awaitable tests in server handlers', _nco, 10)
    rep.ok('C12.R25', 'sftp.SFTPServerHandler|awaitable results awaited',
           f'{_nco} isawaitable tests, no iscoroutine')
    rep.rule('C12.R26', 'SFTPError.construct: "no error" is returned only '
             'for code FX_OK - the return of None is reached only on the '
             'true edge of code == FX_OK, also for a status without '
             'reason / language strings: a bare FX_FAILURE answering a '
             'WRITE must fail that write')
    _fct = k.func('sftp.SFTPError.construct')
    _gct = k.cfg(_fct)
    _rn = [n for n in _gct.nodes if n.kind == 'return' and (
        n.ast.value is None or (isinstance(n.ast.value, ast.Constant) and
                                n.ast.value.value is None))]
    rep.floor('C12.R26', 'returns of "no error"', len(_rn), 1)
    for _n in _rn:
        _w = _gct.guarded_by(_n.id, lambda x: (
            (True if isinstance(x.ast.ops[0], ast.Eq) else False)
            if x.kind == 'atom' and isinstance(x.ast, ast.Compare) and
            len(x.ast.ops) == 1 and isinstance(
                x.ast.ops[0], (ast.Eq, ast.NotEq)) and
            {dotted(x.ast.left), dotted(x.ast.comparators[0])} ==
            {'code', 'FX_OK'} else None))
        rep.check(_w is None, 'C12.R26', key(_fct, 'success only for FX_OK'),
                  'return None guarded by code == FX_OK',
                  'a status without strings is taken as success whatever '
                  'its code: put() and write() report success for a block '
                  'the server refused', k.loc(_fct, _n),
                  _gct.describe_path(_w) if _w else None)
