"""C13 File serving and downloading never leave their directory.

R1 every client path in SFTPServer reaches the filesystem only through
   map_path (taint: source = path parameters, sanitiser = self.map_path)
R2 map_path normalises before joining onto the root; reverse_map_path
   refuses anything outside the root
R3 SCP sink joins only names validated by _parse_cd_args, which rejects
   separators and '..'
R4 recursive SFTP copy joins only validated directory-entry names
"""

from __future__ import annotations

import ast
from typing import Callable, Dict, List, Optional, Set, Tuple

from ..kit import Kit, is_call, key, norm
from ..index import dotted, names_read, walk_shallow, unparse
from ..flow import PARAM
from ..cfg import Node

NOT_DECIDED = [
    'symlinks planted inside the root by other means; TOCTOU races',
    'behaviour of user subclasses overriding map_path',
]

# os.* functions that only manipulate strings
PURE_OS = {'os.path.join', 'os.path.relpath', 'os.path.dirname',
           'os.path.basename', 'os.path.normpath', 'os.path.isabs',
           'os.path.split', 'os.path.splitext', 'os.fsencode', 'os.fsdecode',
           'os.path.commonpath', 'os.path.commonprefix', 'os.sep',
           'os.fspath', 'os.path.normcase'}
FS_FUNCS = {'open', '_setstat', 'make_sparse_file', 'shutil.rmtree',
            'shutil.copy', 'shutil.move'}


def is_fs_sink(c: ast.Call) -> bool:
    d = dotted(c.func)
    if d is None:
        return False
    if d in FS_FUNCS:
        return True
    if (d.startswith('os.') or d.startswith('shutil.') or
            d.startswith('pathlib.')) and d not in PURE_OS:
        return True
    return False


class Taint:
    """Is an expression 'raw' w.r.t. source parameters, i.e. does a source
    reach it other than through a sanitiser call?"""

    def __init__(self, k: Kit, fi, sources: Set[str],
                 sanitiser: Callable[[ast.Call], bool]):
        self.k = k
        self.fi = fi
        self.g = k.cfg(fi)
        self.rd = k.rd(fi)
        self.sources = sources
        self.sanitiser = sanitiser
        self._memo: Dict[Tuple[int, str], bool] = {}

    def raw(self, nid: int, e: ast.AST, depth: int = 0) -> Optional[str]:
        """Name of a source that reaches e unsanitised, else None."""
        if isinstance(e, ast.Call) and self.sanitiser(e):
            return None
        if isinstance(e, ast.Name):
            return self.raw_name(nid, e.id, depth)
        if isinstance(e, (ast.Lambda, ast.FunctionDef, ast.AsyncFunctionDef)):
            return None
        for ch in ast.iter_child_nodes(e):
            r = self.raw(nid, ch, depth)
            if r:
                return r
        return None

    def raw_name(self, nid: int, name: str, depth: int) -> Optional[str]:
        if depth > 20:
            return name if name in self.sources else None
        for d in self.rd.defs_of(nid, name):
            if d == PARAM:
                if name in self.sources:
                    return name
                continue
            mk = (d, name)
            if mk in self._memo:
                if self._memo[mk]:
                    return name
                continue
            self._memo[mk] = False
            v = self.rd.def_value(d, name)
            if v is None:
                continue
            if isinstance(v, ast.AugAssign):
                r = self.raw(d, v.value, depth + 1) or \
                    self.raw_name(d, name, depth + 1)
            else:
                r = self.raw(d, v, depth + 1)
            if r:
                self._memo[mk] = True
                return r
        return None


def _path_params(fi) -> Set[str]:
    out = set()
    for a in fi.node.args.args:
        if 'path' in a.arg and a.arg != 'self':
            ann = unparse(a.annotation) if a.annotation is not None else ''
            if 'bytes' in ann or ann == '':
                out.add(a.arg)
    return out


def r1(k: Kit) -> None:
    rep = k.rep
    idx = k.idx
    rep.rule('C13.R1', 'in SFTPServer every path parameter reaches a '
             'filesystem call only through self.map_path (exemption: '
             'symlink\'s relative link content, required to be dominated by '
             'the realpath equality test)')
    srv = idx.cls('sftp.SFTPServer')
    san = lambda c: is_call(c, 'map_path', 'self')
    flows = 0
    ops = 0
    for name, fi in sorted(srv.methods.items()):
        src = _path_params(fi)
        if not src or name in ('map_path', 'reverse_map_path'):
            continue
        ops += 1
        t = Taint(k, fi, src, san)
        g = k.cfg(fi)
        for node in g.nodes:
            for call in g.calls_at(node):
                if not is_fs_sink(call):
                    continue
                args = list(call.args) + [kw.value for kw in call.keywords]
                tainted = [(i, a) for i, a in enumerate(args)
                           if names_read(a) & _all_names(t, node.id, a)]
                for i, a in enumerate(args):
                    if isinstance(a, ast.Lambda):
                        continue
                    if not _mentions_source(t, node.id, a):
                        continue
                    r = t.raw(node.id, a)
                    ckey = key(fi, f'{dotted(call.func)} arg{i}')
                    if r is None:
                        flows += 1
                        rep.ok('C13.R1', ckey, 'path argument sanitised by '
                               'map_path', k.loc(fi, node))
                        continue
                    if name == 'symlink' and _symlink_exempt(k, fi, t, node,
                                                             call, i, r):
                        flows += 1
                        rep.ok('C13.R1', ckey, 'exempt: relative link '
                               'content, dominated by realpath equality',
                               k.loc(fi, node))
                        continue
                    rep.violation(
                        'C13.R1', ckey,
                        f'client path `{r}` reaches {dotted(call.func)}() '
                        'without passing through self.map_path',
                        k.loc(fi, node))
    rep.floor('C13.R1', 'path-taking operations', ops, 17)
    rep.floor('C13.R1', 'sanitised flows', flows, 22)
    # nothing is appended to a path after it was confined
    from ..flow import expr_sources as _es
    JOINS = ('os.path.join', 'posixpath.join')
    nj = 0
    for name, fi in sorted(srv.methods.items()):
        if name in ('map_path', 'reverse_map_path'):
            continue
        g = k.cfg(fi)
        rd = k.rd(fi)

        def extended(nid, e, depth=0):
            """a join / concatenation in e's history one of whose operands
            comes from map_path"""
            lv, free = _es(g, rd, nid, e)
            for l in list(lv) + [e]:
                for x in ast.walk(l):
                    ops = None
                    if isinstance(x, ast.Call) and dotted(x.func) in JOINS:
                        ops = x.args
                    elif isinstance(x, ast.BinOp) and \
                            isinstance(x.op, ast.Add):
                        ops = [x.left, x.right]
                    if not ops:
                        continue
                    for o in ops[:1]:
                        l2, _ = _es(g, rd, nid, o)
                        if any(san(y) for z in list(l2) + [o]
                               for y in ast.walk(z)
                               if isinstance(y, ast.Call)):
                            return x
            return None
        for node in g.nodes:
            for call in g.calls_at(node):
                if not is_fs_sink(call):
                    continue
                if dotted(call.func) == 'os.path.realpath' and \
                        node.kind == 'atom' and \
                        isinstance(node.ast, ast.Compare):
                    continue        # the containment test itself
                for a in call.args:
                    nj += 1
                    x = extended(node.id, a)
                    rep.check(x is None, 'C13.R1',
                              key(fi, f'{dotted(call.func)} path not '
                                  'extended after map_path'),
                              'the mapped path is used as mapped',
                              f'{dotted(call.func)}() is given '
                              f'`{norm(x)[:70] if x is not None else ""}`: a '
                              'component joined onto a path that '
                              'self.map_path already confined (".." of the '
                              'root, a peer-chosen name) is resolved by the '
                              'operating system outside the root',
                              k.loc(fi, node))
    rep.count('C13.R1.sink arguments checked for late joins', nj)
    # the handler class itself must not hand peer strings to the filesystem
    from ..flow import depends_on
    h = idx.cls('sftp.SFTPServerHandler')
    nh = 0
    for name, fi in sorted(h.methods.items()):
        g = k.cfg(fi)
        rd = k.rd(fi)
        for node in g.nodes:
            for c in g.calls_at(node):
                if not is_fs_sink(c):
                    continue
                nh += 1
                for a in c.args:
                    leaves = []
                    from ..flow import expr_sources
                    lv, free = expr_sources(g, rd, node.id, a)
                    peer = any(is_call(x, 'get_string') or
                               is_call(x, 'get_bytes')
                               for l in lv for x in walk_shallow(l))
                    rep.check(not peer, 'C13.R1',
                              key(fi, f'{dotted(c.func)}'),
                              'no peer string reaches this call',
                              'SFTPServerHandler passes a peer-supplied '
                              'string to a filesystem function directly '
                              'instead of an SFTPServer operation',
                              k.loc(fi, node))
    rep.count('C13.R1.handler fs calls', nh)


def _all_names(t: Taint, nid: int, a: ast.AST) -> Set[str]:
    return names_read(a)


def _mentions_source(t: Taint, nid: int, a: ast.AST) -> bool:
    """Does the argument depend on a source parameter at all (sanitised or
    not)?  Used only to count flows."""
    from ..flow import depends_on
    deps = depends_on(t.g, t.rd, nid, a)
    return bool(deps & t.sources)


def _symlink_exempt(k: Kit, fi, t: Taint, node: Node, call: ast.Call,
                    argi: int, src: str) -> bool:
    """Exemption for SFTPServer.symlink: the raw relative `oldpath` may be
    (a) compared via realpath inside the containment test and (b) used as
    link content only on the 'equal' edge of that test."""
    g = t.g
    d = dotted(call.func)

    def containment(n: Node) -> Optional[bool]:
        a = n.ast
        if n.kind != 'atom' or not isinstance(a, ast.Compare) or \
                len(a.ops) != 1:
            return None
        sides = [a.left, a.comparators[0]]
        if not all(is_call(s, 'realpath') for s in sides):
            return None
        raws = [t.raw(n.id, s) is not None for s in sides]
        if raws.count(True) != 1:
            return None       # one mapped side, one raw side
        if isinstance(a.ops[0], ast.NotEq):
            return False
        if isinstance(a.ops[0], ast.Eq):
            return True
        return None
    if d == 'os.path.realpath':
        return node.kind == 'atom' and containment(node) is not None
    if d == 'os.symlink' and argi == 0 and src == 'oldpath':
        kills = [n.id for n in g.nodes
                 if any(nm == 'oldpath' for nm, _ in t.rd.defs[n.id])]
        w = g.guarded_by(node.id, containment, extra_blocked=kills)
        return w is None
    return False


def r2(k: Kit) -> None:
    rep = k.rep
    rep.rule('C13.R2', 'map_path returns, under a root, join(root, '
             'normpath(join(b"/", path)) with the leading separator '
             'stripped); reverse_map_path returns only for the root or a '
             'path under it')
    fi = k.func('sftp.SFTPServer.map_path')
    g = k.cfg(fi)
    rd = k.rd(fi)
    chroot = lambda n: True if n.kind == 'atom' and \
        dotted(n.ast) == 'self._chroot' else None

    def is_norm(c: ast.Call) -> bool:
        if not is_call(c, 'normpath'):
            return False
        for x in walk_shallow(c):
            if is_call(x, 'join') and x.args and \
                    isinstance(x.args[0], ast.Constant) and \
                    x.args[0].value in (b'/', '/'):
                return True
        return False
    t = Taint(k, fi, {'path'}, is_norm)
    rets = [n for n in g.nodes if n.kind == 'return']
    chrooted = [n for n in rets if g.guarded_by(n.id, chroot) is None]
    rep.floor('C13.R2', 'returns under chroot', len(chrooted), 1)
    for n in chrooted:
        v = n.ast.value
        r = t.raw(n.id, v) if v is not None else 'path'
        rep.check(r is None, 'C13.R2', key(fi, 'normalised'),
                  'returned path depends on the client path only through '
                  'normpath(join(b"/", path))',
                  'map_path returns a value that depends on the client path '
                  'without normpath(join(b"/", path)): ".." components '
                  'survive', k.loc(fi, n))
        # outer join: root first, relative second
        from ..flow import expr_sources
        leaves, free = expr_sources(g, rd, n.id, v)
        okj = False
        for lf in leaves:
            if is_call(lf, 'join') and len(lf.args) == 2 and \
                    dotted(lf.args[0]) == 'self._chroot':
                second, _ = expr_sources(g, rd, n.id, lf.args[1])
                for s in second:
                    # normpath() keeps exactly two leading slashes, so
                    # dropping one character ([1:], removeprefix) is not
                    # enough: every leading separator has to go
                    if is_call(s, 'lstrip') and s.args and \
                            isinstance(s.args[0], ast.Constant) and \
                            s.args[0].value in (b'/', '/'):
                        okj = True
        rep.check(okj, 'C13.R2', key(fi, 'join under root'),
                  'result is join(root, <normalised path>.lstrip(b"/"))',
                  'the normalised path is joined onto the root without '
                  'stripping every leading separator (normpath keeps "//"; '
                  'join then discards the root) or is not joined onto the '
                  'root at all', k.loc(fi, n))
    rv = k.func('sftp.SFTPServer.reverse_map_path')
    g = k.cfg(rv)

    def under_root(n: Node) -> Optional[bool]:
        a = n.ast
        if n.kind != 'atom':
            return None
        if isinstance(a, ast.Compare) and len(a.ops) == 1 and \
                isinstance(a.ops[0], ast.Eq) and \
                {dotted(a.left), dotted(a.comparators[0])} == \
                {'path', 'self._chroot'}:
            return True
        if is_call(a, 'startswith', 'path') and a.args and \
                'self._chroot' in names_read(a.args[0]):
            # must include the separator: chroot + b'/'
            arg = a.args[0]
            if isinstance(arg, ast.BinOp) and isinstance(arg.op, ast.Add) and \
                    isinstance(arg.right, ast.Constant) and \
                    arg.right.value in (b'/', '/'):
                return True
        return None
    rets = [n for n in g.nodes if n.kind == 'return' and
            g.guarded_by(n.id, chroot) is None]
    rep.floor('C13.R2', 'reverse returns under chroot', len(rets), 1)
    for n in rets:
        w = g.guarded_by(n.id, under_root)
        rep.check(w is None, 'C13.R2', key(rv, 'return ' + norm(n.ast)),
                  'returned only for the root or a path under root + "/"',
                  'reverse_map_path reports a path that was not tested to '
                  'lie under the root', k.loc(rv, n),
                  g.describe_path(w) if w else None)


def _validator_atoms(name: str):
    """Atoms of a file-name validator and the edge on which the name is
    *bad*: sep in name → True edge; name == b'..' → True edge."""
    def kind(n: Node) -> Optional[str]:
        a = n.ast
        if n.kind != 'atom' or not isinstance(a, ast.Compare) or \
                len(a.ops) != 1:
            return None
        l, r, op = a.left, a.comparators[0], a.ops[0]
        # the names are bytes everywhere these validators run: a str
        # constant can never compare equal and is not a test
        if isinstance(op, ast.In) and dotted(r) == name and \
                isinstance(l, ast.Constant):
            if l.value == b'/':
                return 'slash'
            if l.value == b'\\':
                return 'backslash'
        if isinstance(op, ast.Eq) and dotted(l) == name and \
                isinstance(r, ast.Constant) and r.value == b'..':
            return 'dotdot'
        if isinstance(op, ast.In) and dotted(l) == name and \
                isinstance(r, (ast.Tuple, ast.Set, ast.List)):
            vals = [e.value for e in r.elts if isinstance(e, ast.Constant)]
            if any(isinstance(v, bytes) and v == b'..' for v in vals):
                return 'dotdot'
        return None

    def kinds(n: Node) -> Set[str]:
        out = set()
        kd = kind(n)
        if kd:
            out.add(kd)
        a = n.ast
        if n.kind == 'atom' and isinstance(a, ast.Compare) and \
                len(a.ops) == 1:
            l, r, op = a.left, a.comparators[0], a.ops[0]
            if isinstance(op, ast.Eq) and dotted(l) == name and \
                    isinstance(r, ast.Constant) and r.value == b'.':
                out.add('dot')
            if isinstance(op, ast.In) and dotted(l) == name and \
                    isinstance(r, (ast.Tuple, ast.Set, ast.List)) and any(
                        isinstance(e, ast.Constant) and e.value == b'.'
                        for e in r.elts):
                out.add('dot')
        return out
    kind.kinds = kinds          # type: ignore[attr-defined]
    return kind


def _rejects(k: Kit, fi, name: str, need: Set[str], rule: str,
             sink: Optional[Node] = None) -> None:
    """Every atom kind in `need` exists and its True edge cannot reach a
    normal use of the name (sink or normal exit)."""
    rep = k.rep
    g = k.cfg(fi)
    kind = _validator_atoms(name)
    found: Dict[str, List[Node]] = {}
    for n in g.nodes:
        for kd in kind.kinds(n):
            found.setdefault(kd, []).append(n)
    for kd in sorted(need):
        nodes = found.get(kd, [])
        if not nodes:
            rep.violation(rule, key(fi, f'rejects {kd}'),
                          f'no test of `{name}` for {kd}: a hostile peer can '
                          'name a file outside the destination',
                          k.loc(fi, fi.node))
            continue
        good = False
        for n in nodes:
            bad_targets = [b for b, lab in g.succ[n.id] if lab is True]
            reach = set()
            for b in bad_targets:
                reach |= g.reachable(b)
            escapes = g.exit in reach if sink is None else \
                (sink.id in reach)
            if not escapes:
                good = True
        rep.check(good, rule, key(fi, f'rejects {kd}'),
                  f'{kd} in the name leads only to an error',
                  f'the {kd} test on `{name}` does not prevent its use',
                  k.loc(fi, nodes[0]))


def r3(k: Kit) -> None:
    rep = k.rep
    rep.rule('C13.R3', 'everything the SCP sink joins onto the destination '
             'is a name returned by _parse_cd_args, which raises for names '
             'containing "/" or "\\" or equal to ".." or "." (a record '
             'named "." makes the sink apply the sender\'s mode to the '
             'destination directory itself, CVE-2018-20685)')
    pc = k.func('scp._parse_cd_args')
    _rejects(k, pc, 'name', {'slash', 'backslash', 'dotdot', 'dot'},
             'C13.R3')
    # the returned name is the validated variable
    g = k.cfg(pc)
    for n in g.nodes:
        if n.kind == 'return' and isinstance(n.ast.value, ast.Tuple):
            last = n.ast.value.elts[-1]
            rep.check(dotted(last) == 'name', 'C13.R3',
                      key(pc, 'returns validated name'),
                      'third result is the validated name',
                      'returned name is not the validated variable',
                      k.loc(pc, n))
    sink = k.idx.cls('scp._SCPSink')
    joins = 0
    for mname, fi in sorted(sink.methods.items()):
        g = k.cfg(fi)
        rd = k.rd(fi)
        for node in g.nodes:
            for call in g.calls_at(node):
                if not is_call(call, 'join') or \
                        dotted(call.func.value) not in ('posixpath',
                                                        'os.path'):
                    continue
                joins += 1
                for a in call.args[1:]:
                    var = dotted(a)
                    okv = False
                    if var:
                        defs = rd.defs_of(node.id, var)
                        okv = bool(defs) and all(
                            d != PARAM and
                            is_call(rd.def_value(d, var), '_parse_cd_args')
                            for d in defs)
                    rep.check(okv, 'C13.R3',
                              key(fi, 'join ' + norm(call)),
                              'joined component comes from _parse_cd_args',
                              f'`{norm(a)}` is joined onto a path without '
                              'having been validated by _parse_cd_args',
                              k.loc(fi, node))
    rep.floor('C13.R3', 'joins in _SCPSink', joins, 2)


def r4(k: Kit) -> None:
    rep = k.rep
    rep.rule('C13.R4', 'in the SFTP client\'s download paths (recursive '
             '_copy and glob expansion) a directory-entry name from scandir '
             'is joined onto a path only after names containing a separator '
             'and "."/".." were rejected')
    n_join = 0
    for qual in ('sftp.SFTPClient._copy', 'sftp.SFTPGlob._match_pattern'):
        fi = k.func(qual)
        g = k.cfg(fi)
        rd = k.rd(fi)
        for node in g.nodes:
            for call in g.calls_at(node):
                if not is_call(call, 'join') or len(call.args) < 2:
                    continue
                var = dotted(call.args[1])
                if not var:
                    continue
                # only names that come from a directory listing entry
                from ..flow import expr_sources
                leaves, free = expr_sources(g, rd, node.id, call.args[1])
                from ..flow import depends_on
                from_listing = any(
                    isinstance(x, ast.Attribute) and x.attr == 'filename'
                    for lf in leaves for x in walk_shallow(lf)) or any(
                        d.endswith('.filename') for d in
                        depends_on(g, rd, node.id, call.args[1]))
                if not from_listing:
                    continue
                if qual.endswith('_copy') and \
                        dotted(call.args[0]) != 'dstpath':
                    continue
                n_join += 1
                kind = _validator_atoms(var)
                for kd in ('dotdot', 'slash'):
                    def val(n: Node, kd=kd) -> Optional[bool]:
                        return False if kind(n) == kd else None
                    # the test must apply to the value as finally joined:
                    # start from every definition of the name that reaches
                    # the join
                    w = None
                    for d in rd.defs_of(node.id, var):
                        st = g.entry if d < 0 else d
                        w = w or g.guarded_by(node.id, val, start=st)
                    rep.check(w is None, 'C13.R4',
                              key(fi, f'join {norm(call.args[0])} '
                                  f'rejects {kd}'),
                              f'join dominated by the {kd} test',
                              f'remote file name `{var}` is joined onto a '
                              f'path without rejecting {kd}: a hostile '
                              'server can make a download write outside the '
                              'destination', k.loc(fi, node),
                              g.describe_path(w) if w else None)
    rep.floor('C13.R4', 'listing-name joins', n_join, 2)


def r5(k: Kit) -> None:
    """Attributes are applied to what the client created, link or not."""
    from ..flow import depends_on
    rep = k.rep
    rep.rule('C13.R5', 'SFTPClient._copy (preserve): whether setstat at the '
             'destination follows a symbolic link is decided from '
             'follow_symlinks and filetype - the type the function '
             'dispatched on when it created the destination entry - and not '
             'from a later answer of the (possibly hostile) source: having '
             'created a symlink, the client must not chmod / utime through '
             'it because a second stat now says "regular file"')
    fi = k.func('sftp.SFTPClient._copy')
    g = k.cfg(fi)
    rd = k.rd(fi)
    sites = [(n, c) for n, c in k.call_nodes(
        fi, lambda c: is_call(c, 'setstat', 'dstfs'))]
    rep.floor('C13.R5', 'destination setstat sites', len(sites), 1)
    # names defined from a source-side reply inside the preserve block
    for n, c in sites:
        kw = [x.value for x in c.keywords if x.arg == 'follow_symlinks']
        if not kw:
            rep.violation('C13.R5', key(fi, 'setstat follow_symlinks'),
                          'destination setstat without follow_symlinks: '
                          'attributes are applied through a symlink the '
                          'client has just created', k.loc(fi, n))
            continue
        deps = depends_on(g, rd, n.id, kw[0])
        allowed = {'follow_symlinks', 'filetype', 'FILEXFER_TYPE_SYMLINK',
                   'srcattrs', 'self'}
        # filetype itself comes from the first stat (srcattrs); anything
        # else obtained from the source afterwards is not acceptable
        extra = {d for d in deps if d not in allowed and
                 not d.startswith('self.') and
                 not d.isupper()} - {'srcfs', 'srcpath'}
        rep.check('filetype' in deps and not ({'attrs'} & deps), 'C13.R5',
                  key(fi, 'setstat follow_symlinks'),
                  'decided from follow_symlinks and filetype',
                  f'`{norm(kw[0])}` depends on {sorted(deps - allowed)}: a '
                  'server that lists a name as a symlink and answers the '
                  'preserve stat as a regular file makes the client chmod / '
                  'utime through the link it has just created - an existing '
                  'file outside the destination is modified',
                  k.loc(fi, n))


def r6(k: Kit) -> None:
    """The SCP sink never climbs above the directory it was started in."""
    rep = k.rep
    idx = k.idx
    rep.rule('C13.R6', '_SCPSink: an E record ends the receive loop of the '
             'directory level it belongs to (no path from the E branch back '
             'to the next recv_request), and no method of the sink shortens '
             'a destination path (dirname / split / ".."): the directory '
             'being written into only grows by names _parse_cd_args '
             'validated, so an unmatched E from a hostile `scp -f` cannot '
             'move the sink to the parent of the caller\'s destination')
    cls = idx.cls('scp._SCPSink')
    fi = cls.methods.get('_recv_files')
    if fi is None:
        rep.violation('C13.R6', 'scp._SCPSink|_recv_files', 'not found',
                      cls.module.relpath)
        return
    g = k.cfg(fi)
    reqs = [n.id for n, c in k.calls_named(fi, 'recv_request', 'self')]
    ends = [a for a in g.nodes if a.kind == 'atom' and
            isinstance(a.ast, ast.Compare) and
            dotted(a.ast.left) == 'action' and
            isinstance(a.ast.comparators[0], ast.Constant) and
            a.ast.comparators[0].value == b'E']
    rep.floor('C13.R6', 'E record tests', len(ends), 1)
    rep.floor('C13.R6', 'request reads', len(reqs), 1)
    for a in ends:
        w = None
        for b, lab in g.succ[a.id]:
            if lab is True:
                for r in reqs:
                    w = w or ([b] if b == r else
                              g.path(b, r, follow_exc=False))
        rep.check(w is None, 'C13.R6', key(fi, 'E ends this level'),
                  'after an E record no further request is read at this '
                  'level',
                  'after an E record the sink goes on reading requests in '
                  'the same loop: a second, unmatched E (or records after '
                  'the E that closes the top-level directory) are applied '
                  'one level above the caller\'s destination', k.loc(fi, a),
                  g.describe_path(w) if w else None)
    n = 0
    for f in cls.methods.values():
        for c in ast.walk(f.node):
            if isinstance(c, ast.Call) and (dotted(c.func) or '').endswith(
                    ('path.dirname', 'path.split', 'path.normpath')):
                args = {x for a in c.args for x in names_read(a)}
                if any('dst' in x for x in args):
                    n += 1
                    rep.violation('C13.R6', key(f, 'destination path '
                                                'shortened'),
                                  f'`{norm(c)}`: the sink derives a '
                                  'destination directory by cutting a path '
                                  'instead of returning to the caller\'s '
                                  'level', f.loc(c))
    rep.ok('C13.R6', 'scp._SCPSink|no destination path shortened',
           f'{len(cls.methods)} methods, {n} shortening calls')


def r7(k: Kit) -> None:
    """The containment test of a symlink uses the link's real directory."""
    rep = k.rep
    rep.rule('C13.R7', 'SFTPServer.symlink: the directory a relative link '
             'target is resolved against in the containment test is the '
             'directory the link is really created in - dirname() is taken '
             'of the normalised new path (normpath / map_path), never of '
             'the raw client path, whose trailing "/" or "/." makes '
             'dirname() one level too deep')
    fi = k.func('sftp.SFTPServer.symlink')
    g = k.cfg(fi)
    rd = k.rd(fi)
    from ..flow import expr_sources
    dn = [(n, c) for n, c in k.calls_named(fi, 'dirname')]
    rep.floor('C13.R7', 'dirname() of the link path', len(dn), 1)
    for n, c in dn:
        arg = c.args[0] if c.args else None
        ok = False
        if arg is not None:
            leaves, free = expr_sources(g, rd, n.id, arg)
            exprs = [arg] + list(leaves)
            normed = any(is_call(x, 'normpath') or is_call(x, 'map_path')
                         for e in exprs for x in ast.walk(e))
            raw = 'newpath' in free and not any(
                is_call(x, 'normpath') or is_call(x, 'map_path')
                for x in ast.walk(arg)) and isinstance(arg, ast.Name)
            ok = normed and not raw
        rep.check(ok, 'C13.R7', key(fi, 'link directory is normalised'),
                  f'dirname({unparse(arg) if arg is not None else ""})',
                  'dirname() of the raw new path: SYMLINK(target='
                  '"../../secret.txt", newpath="a/lnk/") is checked as if '
                  'the link lived in a/lnk, found to stay inside the root, '
                  'and created as <root>/a/lnk -> ../../secret.txt, which '
                  'resolves to <root>/../secret.txt - a following OPEN of '
                  'a/lnk reads the file outside the root', k.loc(fi, n))


def r8(k: Kit) -> None:
    """The last step before the file system does not reinterpret a path."""
    rep = k.rep
    rep.rule('C13.R8', 'the helpers every confined path goes through after '
             'it was normalised and clamped (_to_local_path on POSIX, '
             'LocalFS.encode / decode) only change its type (os.fsencode / '
             'os.fsdecode / bytes.decode): they do not replace separators, '
             'expand "~" or variables, or normalise again - a name that was '
             'one harmless component ("..\\..\\x", "~") would become a '
             'path of its own after the containment decision was taken')
    pure = {'os.fsencode', 'os.fsdecode', 'isinstance', 'cast', 'str',
            'bytes'}
    sites = [('sftp._to_local_path', lambda n: False if n.kind == 'atom'
              and isinstance(n.ast, ast.Compare) and
              dotted(n.ast.left) == 'sys.platform' and
              isinstance(n.ast.ops[0], ast.Eq) else None),
             ('sftp.LocalFS.encode', None), ('sftp.LocalFS.decode', None)]
    n = 0
    for q, posix in sites:
        if not k.idx.has_func(q):
            continue
        fi = k.func(q)
        g = k.cfg(fi)
        n += 1
        bad = None
        for nd in g.nodes:
            for c in g.calls_at(nd):
                d = dotted(c.func) or ''
                if d in pure or d.endswith('.decode') or \
                        d.endswith('.encode'):
                    continue
                if posix is not None and \
                        g.guarded_by(nd.id, posix) is not None and \
                        g.guarded_by(nd.id, lambda x: (
                            None if posix(x) is None else not posix(x))
                        ) is None:
                    # only on the win32 branch
                    continue
                bad = bad or (nd, d)
        rep.check(bad is None, 'C13.R8', key(fi, 'type conversion only'),
                  'calls: ' + ', '.join(sorted(pure)[:2]) + ' ...',
                  f'`{bad[1] if bad else ""}(...)` rewrites the path after '
                  'map_path / compose_path decided it stays inside: on a '
                  'chrooted server "..\\..\\secret.txt" is one component '
                  'for normpath and becomes <root>/../../secret.txt; a '
                  'remote entry called "~" makes mget(..., recurse=True) '
                  'write into $HOME instead of the destination',
                  k.loc(fi, bad[0]) if bad else fi.loc(fi.node))
    rep.floor('C13.R8', 'path conversion helpers', n, 2)


def r9(k: Kit) -> None:
    """A listing cannot name the same entry twice."""
    rep = k.rep
    rep.rule('C13.R9', 'SFTPClient._copy, directory case: a name that '
             'already occurred in this listing is refused before the '
             'recursive copy - otherwise a hostile server lists "x" as a '
             'symlink to a directory outside the destination and then "x" '
             'again as a directory (or file): the client creates the link '
             'and then writes through it, with follow_symlinks=False')
    fi = k.func('sftp.SFTPClient._copy')
    g = k.cfg(fi)
    rec = [nd for nd, c in k.calls_named(fi, '_copy', 'self')]
    rep.floor('C13.R9', 'recursive copies', len(rec), 1)
    # local names bound to a set (set() / {...} / annotated Set[...] = set())
    seen_sets = set()
    for x_ in ast.walk(fi.node):
        tg, v_ = None, None
        if isinstance(x_, ast.Assign) and len(x_.targets) == 1:
            tg, v_ = x_.targets[0], x_.value
        elif isinstance(x_, ast.AnnAssign):
            tg, v_ = x_.target, x_.value
        if isinstance(tg, ast.Name) and v_ is not None and (
                is_call(v_, 'set') or isinstance(v_, ast.Set)):
            seen_sets.add(tg.id)

    def fresh(x: Node) -> Optional[bool]:
        a = x.ast
        if x.kind == 'atom' and isinstance(a, ast.Compare) and \
                len(a.ops) == 1 and isinstance(a.left, ast.Name) and \
                isinstance(a.comparators[0], ast.Name) and \
                a.comparators[0].id in seen_sets:
            if isinstance(a.ops[0], ast.In):
                return False
            if isinstance(a.ops[0], ast.NotIn):
                return True
        return None
    for nd in rec:
        w = g.guarded_by(nd.id, fresh)
        rep.check(w is None, 'C13.R9', key(fi, 'repeated names refused'),
                  'the recursive copy is reached only for a name not seen '
                  'before in this directory',
                  'nothing stops a listing from repeating a name: get(\'/d\', '
                  'dest, recurse=True) against a server that lists x -> '
                  '<outside>/victim_dir and then directory x writes '
                  'evil.txt into <outside>/victim_dir', k.loc(fi, nd),
                  g.describe_path(w) if w else None)


def r10(k: Kit) -> None:
    """Attributes are never applied through a link by fallback."""
    rep = k.rep
    rep.rule('C13.R10', 'sftp._setstat: every os.chown / os.chmod / os.utime '
             '/ os.stat it makes passes follow_symlinks=follow_symlinks - '
             'there is no second, plain call as a fallback: '
             'chmod(follow_symlinks=False) raises NotImplementedError '
             'exactly for a real symlink, which is when following is '
             'wrong (get(recurse=True, preserve=True) would chmod a path '
             'the server chose)')
    fi = k.func('sftp._setstat')
    n = 0
    for c in ast.walk(fi.node):
        if isinstance(c, ast.Call) and dotted(c.func) in (
                'os.chown', 'os.chmod', 'os.utime', 'os.stat', 'os.lchown'):
            n += 1
            ok = any(kw.arg == 'follow_symlinks' and
                     not isinstance(kw.value, ast.Constant)
                     for kw in c.keywords) or dotted(c.func) == 'os.lchown'
            rep.check(ok, 'C13.R10',
                      key(fi, f'{dotted(c.func)} honours follow_symlinks'),
                      'follow_symlinks=follow_symlinks',
                      f'`{norm(c)[:70]}` follows links whatever the caller '
                      'asked: a downloaded link notes -> <outside>/victim '
                      '(mode 0600) leaves victim with the link\'s mode 0777',
                      fi.loc(c))
    rep.floor('C13.R10', 'attribute calls in _setstat', n, 3)


def run(idx, rep, tier):
    k = Kit(idx, rep)
    rep.assumptions += NOT_DECIDED
    r1(k)
    r2(k)
    r3(k)
    r4(k)
    r5(k)
    r6(k)
    r7(k)
    r8(k)
    r9(k)
    r10(k)
    rep.rule('C13.R12', 'scp._scp_handler: the file system handed to the SCP '
             'source / sink is always SFTPServerFS(sftp_server) - the only '
             'thing that routes SCP paths through map_path(); no store of '
             'local_fs (or anything else) into it, whatever the class of '
             'the server object')
    _fsc = k.func('scp._scp_handler')
    _stf = k.stores_to(_fsc, 'fs')
    _uses = [c for c in ast.walk(_fsc.node) if isinstance(c, ast.Call) and
             (dotted(c.func) or '') in ('_SCPSource', '_SCPSink')]
    rep.floor('C13.R12', 'SCP handlers built', len(_uses), 2)
    for _n, _v in _stf:
        rep.check(_v is not None and is_call(_v, 'SFTPServerFS'), 'C13.R12',
                  key(_fsc, 'SCP goes through the SFTP server'),
                  'fs = SFTPServerFS(sftp_server)',
                  f'`fs = {norm(_v) if _v is not None else "?"}`: a chroot '
                  'configured on the plain SFTPServer class is ignored for '
                  'every SCP request (download of a host path outside the '
                  'root succeeds)', k.loc(_fsc, _n))
    for _c in _uses:
        rep.check(bool(_c.args) and dotted(_c.args[0]) == 'fs' and
                  bool(_stf), 'C13.R12',
                  key(_fsc, f'{dotted(_c.func)} uses that file system'),
                  'first argument is fs', 'the handler is given another '
                  'file system object', _fsc.loc(_c))
    rep.rule('C13.R11', 'SFTPServer.readlink under a chroot: the link text '
             'is resolved relative to the directory of the link (the '
             'argument of realpath() is built with join / dirname of the '
             'mapped link path), not handed to realpath() as read - a '
             'relative target would be resolved against the working '
             'directory of the server process, lstat-ing and reading links '
             'outside the root')
    _fr = k.func('sftp.SFTPServer.readlink')
    _gr = k.cfg(_fr)
    _rr = k.rd(_fr)
    from ..flow import expr_sources as _es
    _rp = [(n, c) for n, c in k.calls_named(_fr, 'realpath')]
    rep.floor('C13.R11', 'realpath calls in readlink', len(_rp), 1)
    for _n, _c in _rp:
        _lv, _fv = _es(_gr, _rr, _n.id, _c.args[0])
        _ex = [_c.args[0]] + list(_lv)
        _ok = any(is_call(x, 'join') for e in _ex for x in ast.walk(e)) and \
            any(is_call(x, 'dirname') for e in _ex for x in ast.walk(e))
        rep.check(_ok, 'C13.R11', key(_fr, 'link text resolved from the link'),
                  'realpath(join(dirname(<link>), <text>))',
                  'realpath() of the raw link text: for /a/l -> f the '
                  'server resolves <cwd>/f; if that is a symlink into the '
                  'root, readlink(/a/l) answers /other instead of /a/f, and '
                  'the lookup walks links outside the root',
                  k.loc(_fr, _n))
