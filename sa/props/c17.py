"""C17 Trust-file lookups follow the documented matching rules.

R1 pattern lists: positive ∧ ¬negative; '!' routing; CIDR first, wildcard
   on ValueError; wildcard host pattern matches host or address if non-empty
R2 known_hosts: marker × entry kind → the right result list; the whole
   comma-separated host field goes to one pattern list when it contains a
   meta character (so negation applies to the line); port fallback
R3 authorized_keys: match_options truth table; option tokenizer as a
   transition table compared with the OpenSSH quoting rules
R4 a line whose key does not parse is skipped, nothing else
"""

from __future__ import annotations

import ast
from typing import Any, Dict, List, Optional, Tuple

from ..kit import Kit, is_call, key, norm
from ..index import dotted, walk_shallow, unparse, names_read
from ..absint import (evaluate, product, Obj, Unknown, _Raise, NotEvaluable,
                      Evaluator, _Return, _Break, _Continue)
from ..flow import expr_sources

NOT_DECIDED = [
    'agreement with ssh-keygen -F on arbitrary pattern strings (fnmatch '
    'semantics; external oracle)',
    'hashed host entries (HMAC computation)',
]


def rows_report(rep, rule, fi, rows, bad, floor):
    for name in sorted(rows):
        rep.check(name not in bad, rule, key(fi, 'row: ' + name),
                  f'holds in all {rows[name]} states', bad.get(name, ''),
                  fi.loc(fi.node))
    rep.floor(rule, f'{fi.name} rows', len(rows), floor)


def r1(k: Kit) -> None:
    rep = k.rep
    idx = k.idx
    rep.rule('C17.R1', '_PatternList.matches ⇔ some positive pattern matches '
             'and no negative one does; a leading "!" routes the rest of the '
             'element to the negative list; host patterns try CIDR first and '
             'fall back to wildcard on ValueError; a wildcard host pattern '
             'matches the host or the address, each only if non-empty')
    fi = k.func('pattern._PatternList.matches')
    bad = None
    n = 0
    for npos in range(0, 3):
        for nneg in range(0, 3):
            for bits in range(1 << (npos + nneg)):
                n += 1
                pos = tuple(Obj(f'P{i}') for i in range(npos))
                neg = tuple(Obj(f'N{i}') for i in range(nneg))
                res = {}
                for i in range(npos):
                    res[f'P{i}.matches'] = bool(bits >> i & 1)
                for i in range(nneg):
                    res[f'N{i}.matches'] = bool(bits >> (npos + i) & 1)

                def on_call(name, args, env, res=res):
                    if name in res:
                        return res[name]
                    return Obj('x')
                try:
                    o = evaluate(idx, fi.module, fi.node.body,
                                 {'self._pos_patterns': pos,
                                  'self._neg_patterns': neg},
                                 {'args': ('h',)}, on_call)
                except NotEvaluable as exc:
                    rep.error('C17.R1', 'not-evaluable', str(exc))
                    return
                want = any(res[f'P{i}.matches'] for i in range(npos)) and \
                    not any(res[f'N{i}.matches'] for i in range(nneg))
                if not (o.kind == 'return' and bool(o.value) == want):
                    if bad is None:
                        bad = f'pos={res} expected {want}, got {o}'
    rep.count('eval.patternlist_states', n)
    rep.check(bad is None, 'C17.R1', key(fi, 'pos and not neg'),
              f'positive ∧ ¬negative in all {n} valuations',
              f'pattern list result is wrong: {bad}', fi.loc(fi.node))
    # '!' routing in __init__
    ini = k.func('pattern._PatternList.__init__')
    cases = ['a', '!a', 'a,!b', '!a,b,!c', 'a,b']
    bad = None
    for s in cases:
        def on_call(name, args, env):
            if name == 'self.build_pattern':
                return Obj('M:' + str(args[0]))
            return Obj('x')
        try:
            o = evaluate(idx, ini.module, ini.node.body, {},
                         {'patterns': s}, on_call)
        except NotEvaluable as exc:
            rep.error('C17.R1', 'not-evaluable', str(exc))
            return
        negs = [a[0].tag for nm, a in o.calls
                if nm == 'self._neg_patterns.append']
        poss = [a[0].tag for nm, a in o.calls
                if nm == 'self._pos_patterns.append']
        wneg = ['M:' + e[1:] for e in s.split(',') if e.startswith('!')]
        wpos = ['M:' + e for e in s.split(',') if not e.startswith('!')]
        if negs != wneg or poss != wpos:
            bad = bad or f'{s!r}: positive {poss}, negative {negs}'
    rep.check(bad is None, 'C17.R1', key(ini, 'negation routing'),
              '"!"-prefixed elements (prefix stripped) go to the negative '
              'list, all others to the positive list',
              f'pattern elements are routed wrongly: {bad}',
              ini.loc(ini.node))
    # every concrete list class builds through build_pattern of elements
    hp = k.func('pattern.HostPatternList.build_pattern')
    outs = {}
    for cidr_ok in (True, False):
        def on_call(name, args, env, cidr_ok=cidr_ok):
            if name == 'CIDRHostPattern':
                return Obj('CIDR') if cidr_ok else _Raise('ValueError')
            if name == 'WildcardHostPattern':
                return Obj('WILD')
            return Obj('x')
        try:
            o = evaluate(idx, hp.module, hp.node.body, {},
                         {'pattern': '10.0.0.0/8'}, on_call)
        except NotEvaluable as exc:
            rep.error('C17.R1', 'not-evaluable', str(exc))
            return
        outs[cidr_ok] = o
    rep.check(outs[True].value == Obj('CIDR') and
              outs[False].value == Obj('WILD'), 'C17.R1',
              key(hp, 'CIDR first, wildcard on ValueError'),
              'CIDR when it parses, wildcard otherwise',
              f'host pattern construction: {outs}', hp.loc(hp.node))
    wm = k.func('pattern.WildcardHostPattern.matches')
    bad = None
    n = 0
    for host in ('', 'h'):
        for addr in ('', '1.2.3.4'):
            for mh in (False, True):
                for ma in (False, True):
                    n += 1

                    def on_call(name, args, env, mh=mh, ma=ma):
                        if name.endswith('_matches'):
                            return mh if args and args[0] == 'h' else ma
                        return Obj('x')
                    try:
                        o = evaluate(idx, wm.module, wm.node.body, {},
                                     {'host': host, 'addr': addr,
                                      '_ip': None}, on_call)
                    except NotEvaluable as exc:
                        rep.error('C17.R1', 'not-evaluable', str(exc))
                        return
                    want = (bool(host) and mh) or (bool(addr) and ma)
                    if not (o.kind == 'return' and bool(o.value) == want):
                        bad = bad or f'host={host!r} addr={addr!r} ' \
                            f'mh={mh} ma={ma}: {o}'
    rep.check(bad is None, 'C17.R1', key(wm, 'host or address'),
              f'host ∨ address, empty values never match ({n} states)',
              f'wildcard host matching is wrong: {bad}', wm.loc(wm.node))
    cm = k.func('pattern.CIDRHostPattern.matches')
    rets = [x.value for x in walk_shallow(cm.node)
            if isinstance(x, ast.Return)]
    okc = len(rets) == 1 and 'ip' in names_read(rets[0]) and \
        'self._network' in names_read(rets[0]) and any(
            isinstance(x, ast.Compare) and isinstance(x.ops[0], ast.In)
            for x in ast.walk(rets[0]))
    rep.check(okc, 'C17.R1', key(cm, 'ip in network'),
              'CIDR pattern tests the parsed address against the network',
              'CIDR pattern does not test ip in network', cm.loc(cm.node))


def loop_fragment(fi, target_names):
    for x in ast.walk(fi.node):
        if isinstance(x, ast.For):
            t = unparse(x.target)
            if all(nm in t for nm in target_names):
                return x
    return None


def r2(k: Kit) -> None:
    rep = k.rep
    idx = k.idx
    rep.rule('C17.R2', 'known_hosts: marker × entry kind selects the right '
             'result list; other markers are an error; a host field '
             'containing any of * ? | / ! is matched as one pattern list '
             '(negation applies to the whole line), otherwise each name is '
             'an exact key; the port-less fallback happens iff a port was '
             'given and nothing trusted was found')
    mt = k.func('known_hosts.SSHKnownHosts._match')
    loop = loop_fragment(mt, ['marker', 'key', 'cert', 'subject'])
    if loop is None:
        rep.error('C17.R2', key(mt, 'classification loop'), 'not found')
        return
    want = {(None, 'key'): 'host_keys', ('cert-authority', 'key'): 'ca_keys',
            ('revoked', 'key'): 'revoked_keys',
            (None, 'cert'): 'x509_certs', ('revoked', 'cert'): 'revoked_certs',
            ('cert-authority', 'cert'): 'x509_certs',
            (None, 'subject'): 'x509_subjects',
            ('cert-authority', 'subject'): 'x509_subjects',
            ('revoked', 'subject'): 'revoked_subjects'}
    lists = ['host_keys', 'ca_keys', 'revoked_keys', 'x509_certs',
             'revoked_certs', 'x509_subjects', 'revoked_subjects']
    bad = None
    for (marker, kind), dest in sorted(want.items(), key=str):
        entry = (marker, Obj('K') if kind == 'key' else None,
                 Obj('C') if kind == 'cert' else None,
                 Obj('S') if kind == 'subject' else None)
        env = {nm: () for nm in lists}
        env['matches'] = (entry,)
        try:
            o = evaluate(idx, mt.module, [loop], {}, env, None)
        except NotEvaluable as exc:
            rep.error('C17.R2', 'not-evaluable', str(exc))
            return
        apps = [nm for nm, a in o.calls if nm.endswith('.append')]
        if apps != [dest + '.append']:
            bad = bad or f'marker={marker} kind={kind}: {apps}, expected {dest}'
    rep.count('eval.known_hosts_rows', len(want))
    rep.check(bad is None, 'C17.R2', key(mt, 'marker × kind routing'),
              'all 9 (marker, kind) rows go to the documented list',
              f'known_hosts classification is wrong: {bad}',
              mt.loc(mt.node))
    # lookups: exact by host and by addr, plus every matching pattern entry
    src = unparse(mt.node)
    rep.check('self._exact_entries.get(host' in src and
              'self._exact_entries.get(addr' in src and
              'entry.matches(host, addr, ip)' in src.replace('\n', ' '),
              'C17.R2', key(mt, 'lookup sources'),
              'exact entries for host and address plus pattern entries',
              'lookup no longer consults host, address and pattern entries',
              mt.loc(mt.node))
    ld = k.func('known_hosts.SSHKnownHosts.load')
    g = k.cfg(ld)
    rd = k.rd(ld)
    # marker validation
    okm = False
    for n in g.nodes:
        a = n.ast
        if n.kind == 'atom' and isinstance(a, ast.Compare) and \
                dotted(a.left) == 'marker' and \
                isinstance(a.ops[0], ast.NotIn):
            vals = idx.fold(ld.module, a.comparators[0])
            if isinstance(vals, (tuple, frozenset)) and \
                    set(vals) == {None, 'cert-authority', 'revoked'}:
                tg = [b for b, lab in g.succ[n.id] if lab is True]
                okm = all(g.exit not in g.reachable(b, follow_exc=True) or
                          all(g.nodes[x].kind in ('raise_stmt', 'raise')
                              for x in g.reachable(b)) for b in tg)
    rep.check(okm, 'C17.R2', key(ld, 'unknown marker is an error'),
              'markers other than cert-authority / revoked are rejected',
              'an unknown @marker is not rejected', ld.loc(ld.node))
    # meta characters
    meta_ok = False
    pat_calls = k.calls_named(ld, '_add_pattern', 'self')
    ex_calls = k.calls_named(ld, '_add_exact', 'self')

    def meta_atom(n) -> Optional[bool]:
        a = n.ast
        if n.kind == 'atom' and is_call(a, 'any') and a.args and \
                isinstance(a.args[0], ast.GeneratorExp):
            ge = a.args[0]
            it = ge.generators[0].iter
            if isinstance(it, ast.Constant) and isinstance(it.value, str) \
                    and set('*?|/!') <= set(it.value) and \
                    'pattern' in names_read(ge.elt):
                return True
        return None
    for node, c in pat_calls:
        w = g.guarded_by(node.id, meta_atom)
        whole = c.args and dotted(c.args[0]) == 'pattern'
        leaves, free = expr_sources(g, rd, node.id, c.args[0]) if c.args \
            else ([], set())
        unsplit = all(not (is_call(x, 'split') and x.args and
                           isinstance(x.args[0], ast.Constant) and
                           x.args[0].value == ',')
                      for l in leaves for x in walk_shallow(l))
        rep.check(w is None and whole and unsplit, 'C17.R2',
                  key(ld, 'meta chars → one pattern list for the line'),
                  'a host field with * ? | / ! is matched as one list',
                  'the host field is not handed to the pattern matcher '
                  'whole when it contains a meta character: a negated '
                  'element no longer excludes the line', k.loc(ld, node))
        meta_ok = True
    for node, c in ex_calls:
        def nometa(n):
            r = meta_atom(n)
            return False if r else None
        w = g.guarded_by(node.id, nometa)
        rep.check(w is None, 'C17.R2', key(ld, 'exact only without meta'),
                  'exact index used only for fields without meta characters',
                  'a host field with meta characters (e.g. a negation) can '
                  'be indexed as exact names', k.loc(ld, node))
    rep.check(meta_ok and bool(ex_calls), 'C17.R2', key(ld, 'routing sites'),
              'both routing sites present', 'routing sites missing',
              ld.loc(ld.node))
    ap = k.func('known_hosts.SSHKnownHosts._add_pattern')
    okp = any(is_call(c, '_PlainHost') and c.args and
              dotted(c.args[0]) == 'pattern' for c in walk_shallow(ap.node)) \
        and any(is_call(c, '_HashedHost') for c in walk_shallow(ap.node))
    rep.check(okp, 'C17.R2', key(ap, 'whole pattern'),
              'pattern entry built from the whole host field',
              'pattern entry not built from the whole host field',
              ap.loc(ap.node))
    ph = k.func('known_hosts._PlainHost.__init__')
    rep.check(any(is_call(c, 'HostPatternList') and c.args and
                  dotted(c.args[0]) == 'pattern'
                  for c in walk_shallow(ph.node)), 'C17.R2',
              key(ph, 'host pattern list'),
              'plain host entries use HostPatternList (negation, CIDR)',
              'plain host entries do not use HostPatternList',
              ph.loc(ph.node))
    ae = k.func('known_hosts.SSHKnownHosts._add_exact')
    rep.check(any(is_call(c, 'split') and c.args and
                  isinstance(c.args[0], ast.Constant) and
                  c.args[0].value == ',' for c in walk_shallow(ae.node)),
              'C17.R2', key(ae, 'one key per name'),
              'each comma-separated name becomes an exact key',
              'exact names are not split on commas', ae.loc(ae.node))
    # port fallback
    mf = k.func('known_hosts.SSHKnownHosts.match')
    bad = None
    n = 0
    for port in (None, 2222):
        for which in (None, 'host_keys', 'ca_keys', 'revoked_keys',
                      'x509_certs', 'revoked_certs', 'x509_subjects',
                      'revoked_subjects'):
            n += 1
            first = tuple((Obj('E'),) if nm == which else ()
                          for nm in lists)

            def on_call(name, args, env, first=first):
                if name == 'self._match':
                    return first if len(args) == 3 else \
                        tuple((Obj('F'),) for _ in lists)
                return Obj('x')
            try:
                o = evaluate(idx, mf.module, mf.node.body, {},
                             {'host': 'h', 'addr': 'a', 'port': port},
                             on_call)
            except NotEvaluable as exc:
                rep.error('C17.R2', 'not-evaluable', str(exc))
                return
            ncalls = len([1 for nm, a in o.calls if nm == 'self._match'])
            trusted = which in ('host_keys', 'ca_keys', 'x509_certs',
                                'x509_subjects')
            want = 2 if (port and not trusted) else 1
            if ncalls != want:
                bad = bad or f'port={port} found={which}: {ncalls} lookups'
    rep.check(bad is None, 'C17.R2', key(mf, 'port fallback'),
              f'fallback iff port given ∧ nothing trusted found ({n} states)',
              f'[host]:port fallback is wrong: {bad}', mf.loc(mf.node))


def r3(k: Kit) -> None:
    rep = k.rep
    idx = k.idx
    rep.rule('C17.R3', 'authorized_keys match_options: every present '
             'criterion must match (from: all lists; principals: each list '
             'matches some certificate principal, and a certificate without '
             'principals fails a principals= restriction; subject: all); '
             'the option tokenizer\'s per-character transitions equal the '
             'OpenSSH quoting rules; unbalanced quote/backslash is an error')
    fi = k.func('auth_keys._SSHAuthorizedKeyEntry.match_options')
    rows: Dict[str, int] = {}
    bad: Dict[str, str] = {}
    n = 0
    space = {
        'from': [None, (True,), (False,), (True, False), (True, True)],
        'princ_pat': [None, ('p1',), ('p1', 'p2')],
        'cert_princ': [None, (), ('u1',), ('u1', 'u2')],
        'pmatch': [0, 1, 2, 3, 5, 15],       # bit mask pattern×principal
        'subj_pat': [None, (True,), (False,), (True, False)],
        'subject': [None, 'S'],
    }
    for s in product(space):
        if s['princ_pat'] is None and s['pmatch'] != 0:
            continue
        if not s['cert_princ'] and s['pmatch'] != 0:
            continue
        n += 1
        fpat = None if s['from'] is None else tuple(
            Obj(f'F{i}') for i in range(len(s['from'])))
        ppat = None if s['princ_pat'] is None else tuple(
            Obj(f'PP{i}') for i in range(len(s['princ_pat'])))
        spat = None if s['subj_pat'] is None else tuple(
            Obj(f'SP{i}') for i in range(len(s['subj_pat'])))
        cp = s['cert_princ']

        def pm(i, principal, s=s, cp=cp):
            j = cp.index(principal)
            return bool(s['pmatch'] >> (i * 2 + j) & 1)

        def on_call(name, args, env, s=s, fpat=fpat, ppat=ppat, spat=spat):
            if name == 'self.options.get':
                return {'from': fpat, 'principals': ppat,
                        'subject': spat}.get(args[0])
            if name == 'ip_address':
                return Obj('IP')
            if name.startswith('F') and name.endswith('.matches'):
                return s['from'][int(name[1:-8])]
            if name.startswith('PP') and name.endswith('.matches'):
                return pm(int(name[2:-8]), args[0])
            if name.startswith('SP') and name.endswith('.matches'):
                return s['subj_pat'][int(name[2:-8])]
            return Obj('x')
        try:
            o = evaluate(idx, fi.module, fi.node.body, {},
                         {'client_host': 'h', 'client_addr': '1.2.3.4',
                          'cert_principals': cp,
                          'cert_subject': s['subject']}, on_call)
        except NotEvaluable as exc:
            rep.error('C17.R3', 'not-evaluable', str(exc))
            return
        ok_from = fpat is None or not fpat or all(s['from'])
        ok_pr = cp is None or ppat is None or all(
            any(pm(i, u) for u in cp) for i in range(len(ppat)))
        ok_sub = s['subject'] is None or spat is None or all(s['subj_pat'])
        want = ok_from and ok_pr and ok_sub
        got = o.kind == 'return' and o.value is True

        def row(name, cond):
            if cond:
                rows[name] = rows.get(name, 0) + 1
                if got != want and name not in bad:
                    bad[name] = f'expected {want}; state {s}; outcome {o}'
        row('from: all pattern lists must match', fpat is not None)
        row('principals: every list matches some principal',
            ppat is not None and cp)
        row('principals: certificate without principals fails',
            ppat is not None and cp == ())
        row('principals: plain key ignores principals=', cp is None)
        row('subject: all patterns must match', spat is not None and
            s['subject'] is not None)
        row('no restrictions accepts', fpat is None and ppat is None and
            spat is None)
    rep.count('eval.match_options_states', n)
    rows_report(rep, 'C17.R3', fi, rows, bad, 6)
    # option tokenizer transition table
    po = k.func('misc.OptionsParser._parse_options')
    loop = None
    for x in walk_shallow(po.node):
        if isinstance(x, ast.For) and 'ch' in unparse(x.target):
            loop = x
    if loop is None:
        rep.error('C17.R3', key(po, 'tokenizer loop'), 'not found')
        return
    classes = {'backslash': '\\', 'quote': '"', 'blank': ' ', 'tab': '\t',
               'comma': ',', 'other': 'x', 'equals': '='}
    bad = None
    n = 0
    for esc in (False, True):
        for quo in (False, True):
            for cname, ch in classes.items():
                n += 1
                ev = Evaluator(idx, po.module, {}, lambda nm, a, e: Obj('x'))
                ev.env.update({'self': Obj('self'), 'escaped': esc,
                               'quoted': quo, 'option': 'OPT', 'ch': ch,
                               'idx': 3, 'line': 'zzzz'})
                brk = False
                try:
                    ev.run(loop.body)
                except _Break:
                    brk = True
                except NotEvaluable as exc:
                    rep.error('C17.R3', 'not-evaluable', str(exc))
                    return
                got = (ev.env['escaped'], ev.env['quoted'], ev.env['option'],
                       brk, [a for nm, a in ev.calls
                             if nm == 'self._add_option'])
                # OpenSSH quoting: backslash escapes next char; quotes
                # toggle and are dropped; blank ends the options outside
                # quotes; comma separates outside quotes
                if esc:
                    want = (False, quo, 'OPT' + ch, False, [])
                elif ch == '\\':
                    want = (True, quo, 'OPT', False, [])
                elif ch == '"':
                    want = (False, not quo, 'OPT', False, [])
                elif quo:
                    want = (False, True, 'OPT' + ch, False, [])
                elif ch in ' \t':
                    want = (False, False, 'OPT', True, [])
                elif ch == ',':
                    want = (False, False, '', False, [('OPT',)])
                else:
                    want = (False, False, 'OPT' + ch, False, [])
                if got != want:
                    bad = bad or f'escaped={esc} quoted={quo} ch={cname}: ' \
                        f'{got}, expected {want}'
    rep.count('eval.tokenizer_rows', n)
    rep.check(bad is None, 'C17.R3', key(po, 'tokenizer transitions'),
              f'all {n} (state, character class) transitions follow the '
              'OpenSSH quoting rules',
              f'option tokenizer transition differs: {bad}', po.loc(po.node))
    # the whole function on witness lines (a path that bypasses the loop
    # must agree with it)
    def ref(line):
        opts, cur, q, e, end = [], '', False, False, len(line) - 1
        for i, ch in enumerate(line):
            end = i
            if e:
                cur += ch
                e = False
            elif ch == '\\':
                e = True
            elif ch == '"':
                q = not q
            elif q:
                cur += ch
            elif ch in ' \t':
                break
            elif ch == ',':
                opts.append(cur)
                cur = ''
            else:
                cur += ch
        opts.append(cur)
        return opts, line[end:].strip()
    wit = ['no-pty,no-agent-forwarding\tssh-ed25519 AAAA',
           'no-pty,no-agent-forwarding ssh-ed25519 AAAA',
           'no-pty\tssh-rsa AAAA c', 'a=b\t\tkey', 'a=b \tkey',
           'command="x y",no-pty\tssh-rsa AAAA', 'from="a,b" key',
           'environment="A=\\"q\\"" key', 'cert-authority key comment x',
           'restrict,pty\tkey\tcomment']
    bad = None
    for line in wit:
        try:
            o = evaluate(idx, po.module, po.node.body, {}, {'line': line},
                         lambda nm, a, e: Obj('x'))
        except NotEvaluable as exc:
            rep.error('C17.R3', 'not-evaluable', str(exc))
            return
        got = ([a[0] for nm, a in o.calls if nm == 'self._add_option'],
               o.value if o.kind == 'return' else o.kind)
        want = ref(line)
        if got != (want[0], want[1]) and bad is None:
            bad = f'line {line!r}: options {got[0]}, rest {got[1]!r}; ' \
                f'OpenSSH rules give {want[0]}, {want[1]!r}'
    rep.count('eval.option_lines', len(wit))
    rep.check(bad is None, 'C17.R3', key(po, 'option field ends at blank or tab'),
              f'{len(wit)} witness lines (blank / tab separated, quoted, '
              'escaped) split as by the OpenSSH rules',
              f'{bad}: the entry is dropped or loses a restriction depending '
              'on the white space used', po.loc(po.node))
    g = k.cfg(po)
    for flag in ('quoted', 'escaped'):
        okf = False
        for a in g.nodes:
            if a.kind == 'atom' and dotted(a.ast) == flag and \
                    not any(g.nodes[p].kind == 'loop'
                            for p in g.reachable(a.id)):
                tg = [b for b, lab in g.succ[a.id] if lab is True]
                if tg and all(g.nodes[b].kind == 'raise_stmt' for b in tg):
                    okf = True
        rep.check(okf, 'C17.R3', key(po, f'unbalanced {flag}'),
                  f'ending {flag} is an error',
                  f'options ending {flag} are accepted', po.loc(po.node))
    # the last option is added and the rest of the line returned
    ao = k.func('misc.OptionsParser._add_option')
    bad = None
    for opt, want in (('=v', 'raise'), ('a=b', 'handler'), ('k', 'flag'),
                      ('u=1', 'list')):
        def on_call(name, args, env, opt=opt):
            if name == 'self._handlers.get':
                return Obj('H') if args[0] == 'a' else None
            if name == 'self.options.setdefault':
                return Obj('LIST')
            if name == 'self.options.get':
                return None
            if name == 'isinstance':
                return isinstance(args[0], Obj) and args[0].tag == 'LIST'
            return Obj('x')
        try:
            o = evaluate(idx, ao.module, ao.node.body,
                         {'self._handlers': ('a',)}, {'option': opt},
                         on_call)
        except NotEvaluable as exc:
            rep.error('C17.R3', 'not-evaluable', str(exc))
            return
        calls = [nm for nm, a in o.calls]
        got = 'raise' if o.kind == 'raise' else \
            'handler' if 'handler' in calls or 'H' in calls else \
            'list' if 'LIST.append' in calls or 'values.append' in calls \
            else 'flag' if any(s[0] == "self.options['k']" or
                               s[0].startswith('self.options[')
                               for s in o.stores) else '?'
        if got != want:
            bad = bad or f'{opt!r}: {got} ({calls}), expected {want}'
    rep.check(bad is None, 'C17.R3', key(ao, 'option kinds'),
              'name=value → handler or list, bare name → flag, "=v" → error',
              f'option handling differs: {bad}', ao.loc(ao.node))


def r4(k: Kit) -> None:
    rep = k.rep
    rep.rule('C17.R4', 'in known_hosts / authorized_keys / allowed_signers '
             'loading, a key-import failure skips that line only: the import '
             'sits in a handler for KeyImportError that continues, and the '
             'OpenSSH public-key decoder promises nothing but KeyImportError '
             '(escape analysis, as C10.R5)')
    loaders = [('known_hosts.SSHKnownHosts.load',
                {'import_public_key', 'import_certificate',
                 'import_certificate_subject'}),
               ('auth_keys.SSHAuthorizedKeys.load',
                {'_SSHAuthorizedKeyEntry'}),
               ('sshsig.SSHAllowedSigners.load',
                {'SSHAllowedSignersEntry'})]
    for q, imps in loaders:
        fi = k.func(q)
        g = k.cfg(fi)
        sites = k.call_nodes(fi, lambda c: (dotted(c.func) or '') in imps)
        rep.floor('C17.R4', f'import sites in {q}', len(sites), 1)
        # the *last resort* import must be able to `continue`
        conts = [n for n in g.nodes if isinstance(n.ast, ast.Continue)]
        for node, c in sites:
            hs = [b for b, lab in g.succ[node.id] if lab == 'exc' and
                  g.nodes[b].kind == 'handler']
            okh = False
            for h in hs:
                names = []
                t = g.nodes[h].ast.type
                if t is not None:
                    names = [dotted(e) for e in (
                        t.elts if isinstance(t, ast.Tuple) else [t])]
                if 'KeyImportError' in names or 'ValueError' in names or \
                        t is None:
                    reach = g.reachable(h, follow_exc=True)
                    # the handler may try another import first, but must
                    # not end the loop: exit only via continue / fallthrough
                    raises = [x for x in reach
                              if g.nodes[x].kind == 'raise_stmt' and
                              g.path(h, x, follow_exc=False) and
                              not any(isinstance(p, ast.Try) for p in [])]
                    okh = True
            rep.check(okh, 'C17.R4', key(fi, f'{dotted(c.func)} handled'),
                      'KeyImportError from this import is handled in the '
                      'loop', 'a key-import error from this line aborts the '
                      'whole load', k.loc(fi, node))
        # an unparsable line never raises out of the loop: on the path
        # where every import fails the loop continues
        def blocked(a, b, lab):
            return False
        only_exc = None
        for node, c in sites:
            pass
        rep.check(bool(conts), 'C17.R4', key(fi, 'continue on failure'),
                  'a failed line is skipped with continue',
                  'no continue for unparsable lines', fi.loc(fi.node))
        for cn in conts:
            hs = [h for h in g.nodes if h.kind == 'handler' and
                  g.path(h.id, cn.id, follow_exc=False)]
            if not hs and not any(
                    isinstance(p.ast, ast.ExceptHandler) for p in g.nodes
                    if p.kind == 'handler' and g.path(p.id, cn.id)):
                continue
    # entry constructors let only KeyImportError through for a bad key
    from .c10 import boundary_escapes, KEY_MODS, STUBS
    for q in ('public_key.decode_ssh_public_key',
              'public_key.decode_ssh_certificate'):
        fi = k.func(q)
        E, res = boundary_escapes(k, q, KEY_MODS)
        bad = sorted({f'{c} @ {o}' for c, o in res
                      if c not in STUBS and c != '<reraise>' and
                      not k.idx.exc_is_subclass(c, 'KeyImportError')})
        rep.check(bool(res) and not bad, 'C17.R4',
                  key(fi, 'only KeyImportError escapes'),
                  f'{len(res)} raiser sites, all KeyImportError',
                  'a damaged key can raise ' + '; '.join(bad[:4]) +
                  ', which the file loaders do not catch: one bad line '
                  'aborts the whole file', fi.loc(fi.node))


def r3_accumulate(k: Kit) -> None:
    """Repeated authorized_keys options accumulate (sshd(8): several from=,
    principals=, permitopen=, environment= on one line all apply)."""
    rep = k.rep
    idx = k.idx
    cls = idx.cls('auth_keys._SSHAuthorizedKeyEntry')
    tbl = None
    for st in cls.node.body:
        if isinstance(st, ast.Assign) and any(
                isinstance(t, ast.Name) and t.id == '_handlers'
                for t in st.targets) and isinstance(st.value, ast.Dict):
            tbl = st.value
    if tbl is None:
        rep.error('C17.R3', 'auth_keys._handlers', 'option handler table '
                  'not found')
        return
    multi = {'environment', 'from', 'permitopen', 'principals', 'subject'}
    seen = set()
    for kk, vv in zip(tbl.keys, tbl.values):
        if not (isinstance(kk, ast.Constant) and isinstance(vv, ast.Name)):
            continue
        opt, hname = kk.value, vv.id
        if opt not in multi:
            continue
        seen.add(opt)
        fi = cls.methods.get(hname)
        if fi is None:
            rep.error('C17.R3', f'handler {hname}', 'handler not found')
            continue
        pname = fi.params[1] if len(fi.params) > 1 else 'option'
        overwrite = [n for n in ast.walk(fi.node)
                     if isinstance(n, (ast.Assign, ast.AnnAssign)) and any(
                         isinstance(t, ast.Subscript) and
                         dotted(t.value) == 'self.options'
                         for t in (n.targets if isinstance(n, ast.Assign)
                                   else [n.target]))]
        sd = [c for c in ast.walk(fi.node) if isinstance(c, ast.Call) and
              isinstance(c.func, ast.Attribute) and
              c.func.attr == 'setdefault' and
              dotted(c.func.value) == 'self.options' and c.args and
              isinstance(c.args[0], ast.Name) and c.args[0].id == pname]
        mut = [c for c in ast.walk(fi.node) if
               (isinstance(c, ast.Call) and isinstance(c.func, ast.Attribute)
                and c.func.attr in ('append', 'add', 'update', 'extend')) or
               (isinstance(c, ast.Assign) and any(
                   isinstance(t, ast.Subscript) and
                   dotted(t.value) != 'self.options' for t in c.targets))]
        rep.check(not overwrite and bool(sd) and bool(mut), 'C17.R3',
                  key(fi, f'`{opt}=` accumulates'),
                  f'repeated `{opt}=` options are collected '
                  '(setdefault + add), none is dropped',
                  f'handler of `{opt}=` ' + (
                      'overwrites self.options[option]: of several '
                      f'`{opt}=` options on one line only the last is '
                      'enforced (fail-open for from= / principals=)'
                      if overwrite else
                      'does not collect into the setdefault container'),
                  fi.loc(fi.node))
    rep.floor('C17.R3', 'accumulating option handlers', len(seen), 5)


def wildcard_witnesses(k: Kit, rule: str) -> None:
    """_BaseWildcardPattern.__init__ and _matches evaluated on witnesses;
    fnmatch / re calls on concrete strings are folded with the library."""
    import fnmatch
    import re
    rep = k.rep
    idx = k.idx
    fi = k.func('pattern._BaseWildcardPattern.__init__')
    mf = k.func('pattern._BaseWildcardPattern._matches')

    def strip(f):
        return [st for st in f.node.body if not (
            isinstance(st, ast.Expr) and isinstance(st.value, ast.Constant))]
    bad = None
    n = 0
    cases = [('[gw]:2222', '[gw]:2222', True), ('[gw]:2222', 'gw', False),
             ('[10.0.0.?]:2222', '[10.0.0.7]:2222', True),
             ('[10.0.0.?]:2222', '[10.0.0.77]:2222', False),
             ('[*.example.com]:22', '[a.example.com]:22', True),
             ('[*.example.com]:22', 'a.example.com', False),
             ('*.example.com', 'a.example.com', True),
             ('a]b[c', 'a]b[c', True), ('[[x]]', '[[x]]', True),
             ('[ab]', 'a', False),
             # the whole value is matched, not a prefix or a substring
             ('gw', 'gw.evil.example', False), ('gw', 'xgw', False),
             ('10.0.0.?', '10.0.0.77', False),
             ('*.example.com', 'a.example.com.evil.net', False),
             ('host?', 'host', False), ('a.b', 'aXb', False),
             ('h*t', 'host', True), ('*', 'anything', True),
             # principals and namespaces are case-sensitive
             ('alice', 'Alice', False), ('FILE', 'file', False),
             ('*@example.com', 'bob@EXAMPLE.com', False),
             ('Admin', 'Admin', True)]
    compiled = {}

    def on_call(nm, args, env):
        if nm in ('fnmatch', 'fnmatchcase', 'fnmatch.fnmatch',
                  'fnmatch.fnmatchcase') and len(args) == 2 and \
                all(isinstance(a, str) for a in args):
            return fnmatch.fnmatchcase(*args)
        if nm == 're.escape' and len(args) == 1 and isinstance(args[0], str):
            return re.escape(args[0])
        if nm == 'fnmatch.translate' and isinstance(args[0], str):
            return fnmatch.translate(args[0])
        if nm == 're.compile' and args and isinstance(args[0], str):
            flags = 0
            for a in args[1:]:
                if isinstance(a, int):
                    flags |= a
            tag = f'RE#{len(compiled)}'
            compiled[tag] = re.compile(args[0], flags)
            return Obj(tag)
        meth = nm.rsplit('.', 1)[-1]
        if meth in ('match', 'fullmatch', 'search'):
            recv = env.get(nm.rsplit('.', 1)[0]) if '.' in nm else None
            if nm.startswith('re.') and len(args) >= 2 and \
                    isinstance(args[0], str) and isinstance(args[1], str):
                r = getattr(re, meth)(args[0], args[1])
                return Obj('MATCH') if r else None
            if isinstance(recv, Obj) and recv.tag in compiled and \
                    isinstance(args[0], str):
                r = getattr(compiled[recv.tag], meth)(args[0])
                return Obj('MATCH') if r else None
        return Obj('x')
    consts = {'re.DOTALL': int(re.DOTALL), 're.S': int(re.S),
              're.IGNORECASE': int(re.IGNORECASE), 're.I': int(re.I)}
    for pat, value, want in cases:
        n += 1
        try:
            env = dict(consts)
            env['pattern'] = pat
            o = evaluate(idx, fi.module, strip(fi), {}, env, on_call)
            tr = o.env.get('self._pattern')
            if tr is None:
                tr = dict(o.stores).get('self._pattern')
            env2 = dict(consts)
            env2.update({'value': value, 'self._pattern': tr})
            o2 = evaluate(idx, mf.module, strip(mf), {'self._pattern': tr},
                          env2, on_call)
        except NotEvaluable as exc:
            rep.error(rule, key(fi, 'not-evaluable'), str(exc))
            bad = 'error'
            break
        if o2.kind != 'return' or not isinstance(o2.value, bool):
            bad = bad or (f'pattern {pat!r}: match result not concrete '
                          f'({o2!r}; stored pattern {tr!r})')
            continue
        if o2.value != want:
            bad = bad or (f'pattern {pat!r} (stored as {tr!r}) '
                          f'{"matches" if o2.value else "does not match"} '
                          f'{value!r}')
    if bad != 'error':
        rep.count('eval.wildcard_pattern_cases', n)
        rep.check(bad is None, rule, key(fi, 'wildcard match'),
                  f'{n} (pattern, value) witnesses: brackets literal, * and '
                  '? wild, whole value matched',
                  f'{bad}: a known_hosts / from= pattern accepts names it '
                  'does not denote (prefix matches make `gw` trust '
                  '`gw.evil.example`) or [host]:port forms with wildcards '
                  'never match', fi.loc(fi.node))


def port_fallback(k: Kit, rule: str) -> None:
    """SSHKnownHosts.match: the port-less fallback keeps what the
    [host]:port lookup revoked."""
    rep = k.rep
    idx = k.idx
    fi = k.func('known_hosts.SSHKnownHosts.match')
    body = [st for st in fi.node.body if not (
        isinstance(st, ast.Expr) and isinstance(st.value, ast.Constant))]
    names = ('host_keys', 'ca_keys', 'revoked_keys', 'x509_certs',
             'revoked_certs', 'x509_subjects', 'revoked_subjects')
    bad = None
    n = 0
    for port in (None, 2222):
        for trusted_at_port in (False, True):
            n += 1

            def on_call(nm, args, env, tp=trusted_at_port):
                if nm == 'self._match':
                    withport = len(args) >= 3 and args[2] is not None
                    tag = 'P' if withport else 'N'
                    res = []
                    for i, x in enumerate(names):
                        if withport and not tp and \
                                not x.startswith('revoked'):
                            res.append(())
                        else:
                            res.append((Obj(f'{tag}:{x}'),))
                    return tuple(res)
                return Obj('x')
            try:
                o = evaluate(idx, fi.module, body, {},
                             {'host': 'h', 'addr': '1.2.3.4', 'port': port},
                             on_call)
            except NotEvaluable as exc:
                rep.error(rule, key(fi, 'not-evaluable'), str(exc))
                return
            if o.kind != 'return' or not isinstance(o.value, tuple) or \
                    len(o.value) != 7:
                bad = bad or f'port={port}: result {o!r}'
                continue
            res = dict(zip(names, o.value))
            tag = 'P' if port else 'N'
            for x in names:
                if not x.startswith('revoked'):
                    continue
                if port and Obj(f'P:{x}') not in tuple(res[x]):
                    bad = bad or (
                        f'port={port}, '
                        f'{"" if trusted_at_port else "no "}trusted entry for '
                        f'[host]:port: the {x} found by the [host]:port '
                        f'lookup are dropped (result {res[x]!r}) - a key '
                        'revoked for that port is accepted through the '
                        'port-less entry')
            if port and not trusted_at_port:
                if Obj('N:host_keys') not in tuple(res['host_keys']):
                    bad = bad or 'fallback to port-less entries missing'
            if port and trusted_at_port:
                if Obj('N:host_keys') in tuple(res['host_keys']):
                    bad = bad or ('port-less entries used although '
                                  '[host]:port entries exist')
    rep.count('eval.known_hosts_fallback_states', n)
    rep.check(bad is None, rule, key(fi, 'revoked survives the port fallback'),
              f'{n} states: port-less fallback only without trusted '
              '[host]:port entries, and the [host]:port revocations stay',
              str(bad), fi.loc(fi.node))


def build_pattern_witnesses(k: Kit, rule: str) -> None:
    """HostPatternList.build_pattern: every address or subnet is numeric."""
    import ipaddress
    rep = k.rep
    idx = k.idx
    fi = k.func('pattern.HostPatternList.build_pattern')
    body = [st for st in fi.node.body if not (
        isinstance(st, ast.Expr) and isinstance(st.value, ast.Constant))]
    wit = ['10.0.0.0/8', '10.1.2.3', 'fd00:db8::1', 'FD00:DB8::1', '::1',
           'fe80::/10', '::ffff:1.2.3.4', '2001:0db8:0:0:0:0:0:1',
           'host.example.com', '*.example.com', 'dead.beef.example', 'face',
           '192.168.?.1', '10.1.2.3/8', '192.168.1.77/24']
    bad = None
    for pat in wit:
        def on_call(nm, args, env):
            if nm == 'CIDRHostPattern':
                try:
                    ipaddress.ip_network(args[0])
                except ValueError:
                    return _Raise('ValueError')
                return Obj('CIDR')
            if nm == 'WildcardHostPattern':
                return Obj('WILD')
            return Obj('x')
        try:
            o = evaluate(idx, fi.module, body, {}, {'pattern': pat}, on_call)
        except NotEvaluable as exc:
            rep.error(rule, key(fi, 'not-evaluable'), str(exc))
            return
        try:
            ipaddress.ip_network(pat)
            want = Obj('CIDR')
        except ValueError:
            want = Obj('WILD')
        if not (o.kind == 'return' and o.value == want) and bad is None:
            bad = (f'pattern {pat!r}: built as {o.value!r}, expected '
                   f'{want!r} - an address written in another spelling of '
                   'the same value (case, zero runs) no longer matches, so a '
                   'negated entry stops excluding it and a from= / Match '
                   'address / known_hosts entry stops applying')
    rep.count('eval.build_pattern_witnesses', len(wit))
    rep.check(bad is None, rule, key(fi, 'addresses are matched numerically'),
              f'{len(wit)} patterns: CIDR pattern iff the text is an IPv4 / '
              'IPv6 address or network', str(bad), fi.loc(fi.node))


def key_alg_consistent(k: Kit, rule: str) -> None:
    """A key blob whose parameters belong to another algorithm is damaged."""
    rep = k.rep
    fi = k.func('public_key.decode_ssh_public_key')
    g = k.cfg(fi)
    rets = [n for n in g.nodes if isinstance(n.ast, ast.Return) and
            n.ast.value is not None and dotted(n.ast.value) == 'key']
    rep.floor(rule, 'key returns in decode_ssh_public_key', len(rets), 1)

    def same(x: Node) -> Optional[bool]:
        a = x.ast
        if x.kind == 'atom' and isinstance(a, ast.Compare) and \
                len(a.ops) == 1 and {dotted(a.left),
                                     dotted(a.comparators[0])} == \
                {'key.algorithm', 'alg'}:
            if isinstance(a.ops[0], ast.Eq):
                return True
            if isinstance(a.ops[0], ast.NotEq):
                return False
        return None
    over = [n for n, v in k.stores_to(fi, 'key.algorithm')]
    for r in rets:
        w = g.guarded_by(r.id, same)
        rep.check(w is None and not over, rule,
                  key(fi, 'algorithm name matches the key parameters'),
                  'the key is returned only if the algorithm its parameters '
                  'imply equals the name in the blob',
                  'the algorithm name of the blob is written over whatever '
                  'the parameters imply: `ecdsa-sha2-nistp256 <blob with '
                  'curve id nistp384 and a P-384 point>` is imported as a '
                  'key (equal to the genuine nistp384 key) instead of being '
                  'skipped as damaged; in authorized_keys it authorises '
                  'that key, in known_hosts it is returned as the host key',
                  k.loc(fi, r), g.describe_path(w) if w else None)


def no_empty_host_name(k: Kit, rule: str) -> None:
    """An empty element of a host list is not a host."""
    rep = k.rep
    fi = k.func('known_hosts.SSHKnownHosts._add_exact')
    g = k.cfg(fi)
    stores = [n for n in g.nodes if n.kind == 'stmt' and
              n.ast is not None and any(
        isinstance(x, ast.Subscript) and
        dotted(x.value) == 'self._exact_entries' and
        isinstance(x.ctx, ast.Store) for x in ast.walk(n.ast))] + \
        [n for n, c in k.call_nodes(fi, lambda c: is_call(c, 'append') or
                                    is_call(c, 'setdefault'))]
    rep.floor(rule, 'exact entry registrations', len(stores), 1)
    loopvars = {t.id for x in ast.walk(fi.node) if isinstance(x, ast.For)
                for t in ast.walk(x.target) if isinstance(t, ast.Name)}

    def nonempty(x: Node) -> Optional[bool]:
        if x.kind == 'atom' and isinstance(x.ast, ast.Name) and \
                x.ast.id in loopvars:
            return True
        return None
    for n in stores:
        w = g.guarded_by(n.id, nonempty)
        rep.check(w is None, rule, key(fi, 'empty host name not registered'),
                  'entries are filed only under non-empty names',
                  'a known_hosts line whose host list has an empty element '
                  '("good.example.com, KEY", a trailing or doubled comma) '
                  'files its key under the name "": _match looks up the '
                  'peer address as an exact name, and that is "" for every '
                  'connection without a peer address (proxy_command, '
                  'tunnel) - the key is then trusted for any host reached '
                  'that way', k.loc(fi, n), g.describe_path(w) if w else None)


def strict_networks(k: Kit, rule: str) -> None:
    """An address / prefix pair with host bits set is not a network."""
    rep = k.rep
    idx = k.idx
    n = 0
    for fi in idx.iter_funcs(['misc', 'pattern']):
        for c in ast.walk(fi.node):
            if isinstance(c, ast.Call) and \
                    dotted(c.func) == 'ipaddress.ip_network':
                n += 1
                lax = [kw for kw in c.keywords if kw.arg == 'strict' and not (
                    isinstance(kw.value, ast.Constant) and
                    kw.value.value is True)] or len(c.args) > 1
                rep.check(not lax, rule, key(fi, 'networks parsed strictly'),
                          'ipaddress.ip_network(text) with the default '
                          'strict=True',
                          f'`{norm(c)[:60]}` accepts an address with bits '
                          'set beyond the prefix: `from="10.1.2.3/8"` then '
                          'admits all of 10/8 and `!10.1.2.3/8` excludes '
                          'it, where OpenSSH treats the entry as '
                          'inconsistent and matches nothing', fi.loc(c))
    rep.floor(rule, 'network parses', n, 1)


def curve_lookup_converted(k: Kit, rule: str) -> None:
    """An unknown curve id in a key blob is a damaged key, not a KeyError."""
    from ..index import parent
    rep = k.rep
    fi = k.func('crypto.ec._ECKey.lookup_curve')
    n = 0
    for x in ast.walk(fi.node):
        if isinstance(x, ast.Subscript) and dotted(x.value) == '_curves' \
                and not isinstance(x.slice, ast.Constant):
            n += 1
            ok = False
            y = x
            while y is not None and y is not fi.node:
                y = parent(y)
                if isinstance(y, ast.Try):
                    for h in y.handlers:
                        names = [dotted(t) for t in (
                            h.type.elts if isinstance(h.type, ast.Tuple)
                            else [h.type])] if h.type is not None else []
                        if any(nm in ('KeyError', 'LookupError')
                               for nm in names) and any(
                            isinstance(r, ast.Raise) and r.exc is not None
                            and 'ValueError' in unparse(r.exc)
                                for r in ast.walk(h)):
                            ok = True
            rep.check(ok, rule, key(fi, 'unknown curve is a ValueError'),
                      'KeyError from the curve table becomes ValueError',
                      'the curve table is indexed with the curve id of the '
                      'blob without converting KeyError: a well-framed '
                      'ecdsa-sha2-* line naming an unregistered curve makes '
                      'import_known_hosts / import_authorized_keys fail as a '
                      'whole (KeyError) instead of skipping that line',
                      fi.loc(x))
    uses_get = any(is_call(c, 'get', '_curves') for c in ast.walk(fi.node))
    if not n and not uses_get:
        rep.violation(rule, key(fi, 'curve table lookup'), 'not found',
                      fi.loc(fi.node))


def hashed_empty_addr(k: Kit, rule: str) -> None:
    """A hashed entry is not compared with an address that is not there."""
    from ..absint import evaluate_total
    rep = k.rep
    idx = k.idx
    fi = k.func('known_hosts._HashedHost.matches')
    body = [st for st in fi.node.body if not (
        isinstance(st, ast.Expr) and isinstance(st.value, ast.Constant))]
    bad = None
    for host, addr in (('h', ''), ('h', '1.2.3.4'), ('', '')):
        calls = []

        def on_call(nm, args, env, calls=calls):
            if nm == 'self._match':
                calls.append(args[0])
                return False
            if nm == 'bool':
                return bool(args[0])
            return Obj('x')
        try:
            evaluate(idx, fi.module, body, {},
                     {'host': host, 'addr': addr, '_ip': None}, on_call)
        except NotEvaluable as exc:
            rep.error(rule, key(fi, 'not-evaluable'), str(exc))
            return
        if '' in calls and addr == '' and host != '' and bad is None:
            bad = (f'lookup of host {host!r} without an address hashes the '
                   f'empty string (compared {calls!r})')
    rep.check(bad is None, rule, key(fi, 'no match on an absent address'),
              'the address is hashed only when there is one',
              f'{bad}: a hashed known_hosts entry made from the empty name '
              'matches every connection that has no peer address '
              '(proxy_command, tunnel) - the sibling of the plain empty '
              'name', fi.loc(fi.node))


def r5(k: Kit) -> None:
    """Bracket escaping of host patterns; every line for a key is tried."""
    rep = k.rep
    idx = k.idx
    rep.rule('C17.R5', 'the wildcard translation of a host pattern is '
             'evaluated on bracketed witnesses ([host]:port forms) and the '
             'result handed to fnmatch: `[` and `]` match themselves, `*` '
             'and `?` stay wildcards; SSHAuthorizedKeys.validate and '
             'SSHAllowedSigners.validate try every entry listing the key, a '
             'non-matching line does not end the search')
    wildcard_witnesses(k, 'C17.R5')
    for qual in ('auth_keys.SSHAuthorizedKeys.validate',
                 'sshsig.SSHAllowedSigners.validate'):
        if not idx.has_func(qual):
            rep.error('C17.R5', qual, 'function not found')
            continue
        f = k.func(qual)
        g = k.cfg(f)
        calls = k.calls_named(f, 'match_options')
        rep.check(bool(calls), 'C17.R5', key(f, 'match_options site'),
                  'options are matched per entry', 'no match_options call',
                  f.loc(f.node))
        for nd, c in calls:
            loops = [lp for lp in g.nodes if lp.kind == 'loop' and
                     isinstance(lp.ast, ast.For) and
                     any(c is x for x in ast.walk(lp.ast))]
            okl = False
            for lp in loops:
                # from the failing edge of the condition the loop goes on
                for b, lab in g.succ[nd.id]:
                    if lab is False and (b == lp.id or g.path(
                            b, lp.id, follow_exc=False) is not None):
                        okl = True
            rep.check(okl, 'C17.R5', key(f, 'every entry for the key tried'),
                      'a line whose options do not match is skipped and the '
                      'next line for the same key is tried',
                      'only one entry listing the key is considered: a later '
                      'line whose from= / principals= would match is never '
                      'tried, so acceptance depends on line order',
                      k.loc(f, nd))


def r4_cert_kind(k: Kit) -> None:
    """A known_hosts line that holds an OpenSSH certificate blob."""
    rep = k.rep
    fi = k.func('known_hosts.SSHKnownHosts.load')
    g = k.cfg(fi)
    sites = k.calls_named(fi, 'import_certificate')
    rep.floor('C17.R4', 'certificate import sites in load', len(sites), 1)
    entries = [n for n in g.nodes if n.kind == 'stmt' and
               isinstance(n.ast, ast.Assign) and
               dotted(n.ast.targets[0]) == 'entry']
    rep.floor('C17.R4', 'entry construction sites', len(entries), 1)
    for nd, c in sites:
        st = nd.ast
        var = dotted(st.targets[0]) if isinstance(st, ast.Assign) else None

        def val(x, var=var):
            a = x.ast
            if x.kind == 'atom' and dotted(a) == f'{var}.is_x509':
                return True
            return None
        for e in entries:
            # every path import -> entry passes the is_x509 True edge
            w = None
            for b, lab in g.succ[nd.id]:
                if lab != 'exc':        # the import succeeded
                    w = w or (None if val(g.nodes[b]) is not None else
                              g.guarded_by(e.id, val, start=b))
            if not var:
                w = [0]
            rep.check(w is None, 'C17.R4',
                      key(fi, 'only X.509 certificates become entries'),
                      'an imported certificate is stored only if it is an '
                      'X.509 certificate',
                      'a known_hosts line holding an OpenSSH certificate '
                      'blob becomes an entry: match_known_hosts then raises '
                      'ValueError("OpenSSH certificates not allowed in known '
                      'hosts") for every lookup that matches the line, so '
                      'the other (valid) lines for that host are lost',
                      k.loc(fi, nd), g.describe_path(w) if w else None)


def r3_case(k: Kit) -> None:
    """Option keywords are case-insensitive (sshd(8))."""
    from ..flow import PARAM
    rep = k.rep
    rep.rule('C17.R3', 'option keywords of authorized_keys / allowed-signers '
             'lines are matched without regard to case: OptionsParser.'
             '_add_option lower-cases the name before the handler lookup and '
             'before it is stored, and the server looks restrictions up by '
             'lower-cased name (a restriction written FROM= or No-Pty must '
             'not be silently ignored)')
    fi = k.func('misc.OptionsParser._add_option')
    g = k.cfg(fi)
    rd = k.rd(fi)
    uses = 0
    for nd in g.nodes:
        for c in g.calls_at(nd):
            keyarg = None
            if isinstance(c.func, ast.Attribute) and \
                    c.func.attr in ('get', 'setdefault') and c.args and \
                    (dotted(c.func.value) or '').startswith('self.'):
                keyarg = c.args[0]
            if keyarg is None:
                continue
            uses += 1
            _lower_ok(k, rep, fi, g, rd, nd, keyarg)
        a = nd.ast
        if nd.kind == 'stmt' and isinstance(a, ast.Assign) and \
                isinstance(a.targets[0], ast.Subscript) and \
                dotted(a.targets[0].value) == 'self.options':
            uses += 1
            _lower_ok(k, rep, fi, g, rd, nd, a.targets[0].slice)
    rep.floor('C17.R3', 'option name uses in _add_option', uses, 3)
    for qual in ('connection.SSHServerConnection.check_key_permission',
                 'connection.SSHServerConnection.get_key_option'):
        f = k.func(qual)
        gets = [c for n_, c in k.calls_named(f, 'get')
                if dotted(c.func.value) == 'self._key_options' and c.args]
        okl = bool(gets) and all(any(
            is_call(x, 'lower') for x in ast.walk(c.args[0])
            if isinstance(x, ast.Call)) for c in gets)
        rep.check(okl, 'C17.R3', key(f, 'lookup by lower-cased name'),
                  'the stored (lower-case) name is what is looked up',
                  f'{qual} looks the option up as spelled by its caller '
                  '(e.g. no-X11-forwarding) while the parser stores '
                  'lower-case names: the restriction is never found',
                  f.loc(f.node))


def _lower_ok(k, rep, fi, g, rd, nd, expr) -> None:
    from ..flow import PARAM
    ok = any(is_call(x, 'lower') for x in ast.walk(expr)
             if isinstance(x, ast.Call))
    if not ok and isinstance(expr, ast.Name):
        defs = rd.defs_of(nd.id, expr.id)
        ok = bool(defs) and all(
            d != PARAM and any(
                is_call(x, 'lower') for x in ast.walk(g.nodes[d].ast)
                if isinstance(x, ast.Call)) for d in defs)
    rep.check(ok, 'C17.R3', key(fi, f'`{norm(expr)}` lower-cased at '
                                f'`{norm(nd.ast)[:40]}`'),
              'the option name used here is lower-cased',
              f'`{norm(expr)}` is used as the option name as written in the '
              'file: an option spelled with other capitals (FROM=, No-Pty) '
              'misses its handler / its lookup and is not enforced',
              k.loc(fi, nd))


def ca_lines_routed(k: Kit, rule: str) -> None:
    """cert-authority lines never serve as plain key lines."""
    rep = k.rep
    fi = k.func('auth_keys.SSHAuthorizedKeys.load')
    g = k.cfg(fi)
    from ..cfg import Node

    def ca(x) -> Optional[bool]:
        a = x.ast
        if x.kind == 'atom' and isinstance(a, ast.Compare) and \
                len(a.ops) == 1 and isinstance(a.left, ast.Constant) and \
                a.left.value == 'cert-authority':
            if isinstance(a.ops[0], ast.In):
                return False        # satisfied on the "not a CA line" edge
            if isinstance(a.ops[0], ast.NotIn):
                return True
        return None
    apps = [nd for nd, c in k.calls_named(fi, 'append', 'self._user_entries')]
    apps += [nd for nd in g.nodes if isinstance(nd.ast, ast.Assign) and any(
        isinstance(t, ast.Subscript) and
        dotted(t.value) == 'self._user_entries' for t in nd.ast.targets)]
    rep.floor(rule, 'plain-key entry stores', len(apps), 1)
    for nd in apps:
        w = g.guarded_by(nd.id, ca)
        rep.check(w is None, rule,
                  key(fi, 'cert-authority lines are CA lines only'),
                  '_user_entries.append only when cert-authority is absent',
                  'a line marked cert-authority is also filed as an '
                  'ordinary key line: the CA key itself logs in when '
                  'presented as a plain public key, and the line\'s '
                  'principals= restriction is never evaluated',
                  k.loc(fi, nd), g.describe_path(w) if w else None)


def lines_split_on_newline_only(k: Kit, rule: str) -> None:
    """A trust file has the lines its author sees."""
    rep = k.rep
    n = 0
    for q in ('known_hosts.SSHKnownHosts.load',
              'auth_keys.SSHAuthorizedKeys.load',
              'sshsig.SSHAllowedSigners.load'):
        fi = k.func(q)
        bad = [c for c in ast.walk(fi.node) if is_call(c, 'splitlines')]
        spl = [c for c in ast.walk(fi.node) if is_call(c, 'split') and
               c.args and isinstance(c.args[0], ast.Constant) and
               c.args[0].value == '\n']
        n += 1
        rep.check(not bad and bool(spl), rule,
                  key(fi, 'entries are separated by newline only'),
                  "split('\\n')",
                  'str.splitlines() also breaks a line at \\x0b \\x0c '
                  '\\x1c-\\x1e \\x85 \\u2028 \\u2029: the one physical '
                  'line `alpha <key1> note\\x0c* <key2>` makes key2 a '
                  'trusted host key for every host, and a comment '
                  'containing \\u2028 in authorized_keys authorises a '
                  'second key without its from= restriction',
                  fi.loc(bad[0]) if bad else fi.loc(fi.node))
    rep.floor(rule, 'trust file loaders', n, 3)


def option_values_required(k: Kit, rule: str) -> None:
    """An option that takes a value is not accepted as a bare word."""
    rep = k.rep
    fi = k.func('misc.OptionsParser._add_option')
    g = k.cfg(fi)
    flags = [nd for nd, v in k.stores_to(fi, 'self.options')] + [
        nd for nd in g.nodes if isinstance(nd.ast, ast.Assign) and any(
            isinstance(t, ast.Subscript) and dotted(t.value) == 'self.options'
            for t in nd.ast.targets) and isinstance(
                nd.ast.value, ast.Constant) and nd.ast.value.value is True]
    rep.floor(rule, 'flag stores in _add_option', len(flags), 1)

    def not_valued(x) -> Optional[bool]:
        a = x.ast
        if x.kind == 'atom' and isinstance(a, ast.Compare) and \
                len(a.ops) == 1 and \
                dotted(a.comparators[0]) == 'self._handlers':
            if isinstance(a.ops[0], ast.In):
                return False
            if isinstance(a.ops[0], ast.NotIn):
                return True
        return None
    for nd in flags:
        w = g.guarded_by(nd.id, not_valued)
        rep.check(w is None, rule,
                  key(fi, 'bare word only for flag options'),
                  'options[name] = True only when name has no value handler',
                  'a value option written as a bare word (`from <key>`, '
                  '`cert-authority,principals <key>`) is stored as True: '
                  'validate() later raises TypeError ("bool is not '
                  'iterable") in the middle of the lookup, so the lines '
                  'after it are never reached', k.loc(fi, nd),
                  g.describe_path(w) if w else None)


def run(idx, rep, tier):
    k = Kit(idx, rep)
    rep.assumptions += NOT_DECIDED
    rep.trusted.append('OpenSSH quoting / known_hosts marker tables in '
                       'sa/props/c17.py (hand-transcribed from sshd(8))')
    r1(k)
    r2(k)
    r3(k)
    r3_accumulate(k)
    r3_case(k)
    r4(k)
    r4_cert_kind(k)
    ca_lines_routed(k, 'C17.R4')
    rep.rule('C17.R8', 'known_hosts / authorized_keys text is cut into '
             'entries at "\\n" only (what OpenSSH and every editor call a '
             'line), never with str.splitlines(); and an option that takes '
             'a value is refused when written as a bare word instead of '
             'being stored as a flag')
    lines_split_on_newline_only(k, 'C17.R8')
    rep.rule('C17.R10', 'SSHKnownHosts._match: in the port-qualified lookup '
             '([host]:port) network patterns take no part - the address '
             'object handed to the pattern entries is None there (CIDR '
             'entries carry no port): otherwise "10.1.2.0/24 KEY_B" is '
             'trusted for [gw]:2222 next to its own entry, and a port-less '
             'CIDR match suppresses the fallback to the plain names; and '
             'an authorized_keys line whose key field holds an OpenSSH '
             'certificate is skipped like any other unusable line instead '
             'of raising AttributeError out of the loader')
    _fm = k.func('known_hosts.SSHKnownHosts._match')
    _gm = k.cfg(_fm)
    _clr = [n for n, v in k.stores_to(_fm, 'ip')
            if isinstance(v, ast.Constant) and v.value is None and
            _gm.guarded_by(n.id, lambda x: True if x.kind == 'atom' and
                           dotted(x.ast) == 'port' else None) is None]
    _uses = [n for n, c in k.calls_named(_fm, 'matches')
             if any(dotted(a) == 'ip' for a in c.args)]
    rep.floor('C17.R10', 'pattern matches with the address object',
              len(_uses), 1)
    for _n in _uses:
        # on the port path the use is reached only through the clearing
        _w = None
        for _a in _gm.nodes:
            if _a.kind == 'atom' and dotted(_a.ast) == 'port':
                for _b, _lab in _gm.succ[_a.id]:
                    if _lab is True:
                        _w = _w or _gm.path(_b, _n.id,
                                            blocked_nodes=[c.id for c in _clr])
        rep.check(bool(_clr) and _w is None, 'C17.R10',
                  key(_fm, 'no network match in the port lookup'),
                  'ip = None on the port path before the pattern entries',
                  'known_hosts "[gw.example.net]:2222 KEY_A" and '
                  '"10.1.2.0/24 KEY_B": the lookup for gw:2222 at 10.1.2.3 '
                  'returns KEY_A and KEY_B', k.loc(_fm, _n))
    _fi2 = k.func('auth_keys._SSHAuthorizedKeyEntry._import_key_or_cert')
    _gi2 = k.cfg(_fi2)
    _sub = [n for n in _gi2.nodes if n.ast is not None and any(
        isinstance(x, ast.Attribute) and x.attr in ('subject', 'issuer') and
        (dotted(x.value) or '').endswith('cert')
        for r_ in _gi2.node_roots(n) for x in ast.walk(r_))]
    rep.floor('C17.R10', 'X.509 field uses', len(_sub), 1)
    for _n in _sub:
        _w = _gi2.guarded_by(_n.id, lambda x: (
            True if x.kind == 'atom' and isinstance(x.ast, ast.Attribute)
            and x.ast.attr == 'is_x509' else None))
        rep.check(_w is None, 'C17.R10',
                  key(_fi2, 'X.509 fields read from X.509 certificates only'),
                  'guarded by is_x509',
                  '`cert-authority ssh-ed25519-cert-v01@openssh.com AAAA...` '
                  'raises AttributeError (no .subject) out of '
                  'import_authorized_keys: the whole file fails to load',
                  k.loc(_fi2, _n), _gi2.describe_path(_w) if _w else None)
    rep.rule('C17.R9', 'SSHKnownHosts._add_exact gives every name of a '
             'line an entry list of its own (the value stored into '
             '_exact_entries is a list display written at the store, never '
             'a list object bound outside the loop and stored under '
             'several names); read_authorized_keys loads file by file (the '
             'load() call sits in the loop over the files and takes one '
             'read_file() result) - joined contents fuse the last line of '
             'a file without final newline with the first line of the next')
    _fa = k.func('known_hosts.SSHKnownHosts._add_exact')
    _n = 0
    for _x in ast.walk(_fa.node):
        _val = None
        if isinstance(_x, ast.Assign) and any(
                isinstance(t, ast.Subscript) and
                dotted(t.value) == 'self._exact_entries' for t in _x.targets):
            _val = _x.value
        elif is_call(_x, 'setdefault', 'self._exact_entries') and \
                len(_x.args) > 1:
            _val = _x.args[1]
        if _val is None:
            continue
        _n += 1
        rep.check(isinstance(_val, ast.List) or (
            is_call(_val, 'list') and not _val.args), 'C17.R9',
                  key(_fa, 'one entry list per name'),
                  'a fresh list display is stored',
                  f'`{norm(_val)}` is stored under every new name of the '
                  'line: with "alpha,192.0.2.10 K0" followed by "alpha K1" '
                  'a lookup of beta at 192.0.2.10 returns K0 and K1; with '
                  '"alpha,gamma K0" then "@revoked alpha K0", gamma\'s key '
                  'is reported revoked', _fa.loc(_x))
    rep.floor('C17.R9', 'entry list stores', _n, 1)
    _fr = k.func('auth_keys.read_authorized_keys')
    from ..index import parent as _parent
    _loads = [c for c in ast.walk(_fr.node) if is_call(c, 'load')]
    rep.floor('C17.R9', 'load calls in read_authorized_keys', len(_loads), 1)
    for _c in _loads:
        _p = _c
        _inloop = False
        while _p is not None and _p is not _fr.node:
            _p = _parent(_p)
            if isinstance(_p, (ast.For, ast.AsyncFor)):
                _inloop = True
        _ok = _inloop and _c.args and is_call(_c.args[0], 'read_file')
        rep.check(bool(_ok), 'C17.R9', key(_fr, 'files loaded one by one'),
                  'for filename in files: load(read_file(filename))',
                  'the files are concatenated before parsing: when a file '
                  'lacks its final newline its last entry and the first '
                  'entry of the next file become one line and both keys '
                  'are lost (16 of 128 lookups of authorised keys fail)',
                  _fr.loc(_c))
    option_values_required(k, 'C17.R8')
    key_alg_consistent(k, 'C17.R4')
    curve_lookup_converted(k, 'C17.R4')
    strict_networks(k, 'C17.R1')
    r5(k)
    rep.rule('C17.R6', 'SSHKnownHosts.match evaluated with a stubbed _match: '
             'the lookup without port is used only when the [host]:port '
             'lookup found no trusted entry, and the @revoked entries the '
             '[host]:port lookup found are part of the result either way')
    port_fallback(k, 'C17.R6')
    build_pattern_witnesses(k, 'C17.R1')
    no_empty_host_name(k, 'C17.R2')
    hashed_empty_addr(k, 'C17.R2')
    # C17.R7: shared rule
    from .c04 import r6 as _c04r6
    rep.rule('C17.R7', 'lookups do not change the loaded file (= C04.R6): SSHKnownHosts._match builds its result in a fresh list and never extends a stored per-host entry list')
    _before = len(rep.obligations)
    _c04r6(k)
    _kept = [o for o in rep.obligations[_before:] if 'known_hosts' in o.key or '_match' in o.key]
    del rep.obligations[_before:]
    rep.obligations.extend(_kept)
    rep.floor('C17.R7', 'shared rows', len(_kept), 1)
    for o in rep.obligations[_before:]:
        o.rule = 'C17.R7'
    from .shared import share
    from .c04 import r8 as _c04r8
    share(k, 'C17.R11', 'a trust-file line is selected for the key it lists (= C04.R8): key equality and hash cover every public parameter (DSA: p, q, g, y), so a look-alike key does not inherit the line and its options', _c04r8)
