"""C09 Everything terminates: no hung waiter, one orderly close.

R1 every waiter registry is drained by its owner's cleanup; every
   create_future() site is in the table
R2 cleanup reaches everything: connection → channels → sessions; the
   decision table of SSHChannel._flush_recv_buf schedules the channel
   cleanup whenever a close is pending and nothing is buffered
R3 the final notification is delivered at most once
R4 close-once typestate of the channel; inbound handlers test the state
"""

from __future__ import annotations

import ast
from typing import Any, Dict, List, Optional

from ..kit import Kit, is_call, key, norm, atom_truthy_of
from ..index import dotted, walk_shallow, unparse, names_read, call_name, iter_calls
from ..absint import evaluate, product, Obj, Unknown, NotEvaluable
from ..cfg import Node

CH = 'channel.SSHChannel.'
CONN = 'connection.SSHConnection.'

NOT_DECIDED = [
    'that no waiter hangs under every interleaving (needs a scheduler model)',
    'legality of callback orders beyond "at most one final notification"',
]

FUTURE_SITES = {
    'channel.SSHChannel._open': 'self._open_waiter ← SSHChannel._cleanup',
    'channel.SSHChannel._make_request':
        'self._request_waiters ← SSHChannel._cleanup',
    'connection._connect':
        'options.waiter ← SSHConnection._cleanup (self._waiter)',
    'connection.SSHConnection._make_global_request':
        'self._global_request_waiters ← SSHConnection._cleanup',
    'sftp.SFTPClientHandler._make_request':
        'self._requests ← SFTPClientHandler._cleanup',
    'stream.SSHStreamSession._block_read':
        'self._read_waiters ← eof_received ← connection_lost',
    'stream.SSHStreamSession.drain':
        'self._drain_waiters ← _unblock_drain ← connection_lost',
}


def r1(k: Kit) -> None:
    rep = k.rep
    idx = k.idx
    rep.rule('C09.R1', 'every create_future() in the package belongs to a '
             'registry that its owner\'s cleanup resolves completely and '
             'empties: channel open / request waiters, global request '
             'waiters, the connect waiter, SFTP request table, stream read / '
             'drain waiters; close events are set on every cleanup path')
    n = 0
    for f in idx.iter_funcs():
        for c in ast.walk(f.node):
            if isinstance(c, ast.Call) and isinstance(c.func, ast.Attribute) \
                    and c.func.attr == 'create_future':
                n += 1
                rep.check(f.qual in FUTURE_SITES, 'C09.R1',
                          key(f, 'create_future'),
                          FUTURE_SITES.get(f.qual, ''),
                          f'new future created in {f.qual}: not in the table '
                          'of registries drained on close (untriaged waiter)',
                          f.loc(c))
    rep.floor('C09.R1', 'create_future sites', n, 7)
    # a waiter is registered only while its owner is alive: after _cleanup
    # has drained the registry nobody would ever resolve it
    for qual, field in (
            ('connection.SSHConnection._make_global_request',
             'self._transport'),
            ('channel.SSHChannel._make_request', 'self._send_chan')):
        f = k.func(qual)
        gg = k.cfg(f)
        for nd, c in k.calls_named(f, 'create_future'):
            w = gg.guarded_by(nd.id, atom_truthy_of(field))
            rep.check(w is None, 'C09.R1',
                      key(f, f'waiter only while {field}'),
                      f'the waiter is created only past the `{field}` '
                      'liveness test',
                      f'a waiter can be registered after `{field}` is gone '
                      '(connection / channel already cleaned up): the '
                      'registry was drained, so the request, and everything '
                      'awaiting it (listener close tasks, '
                      'forward_remote_port), hangs forever',
                      k.loc(f, nd), gg.describe_path(w) if w else None)
    # SSHChannel._cleanup
    cc = k.func(CH + '_cleanup')
    g = k.cfg(cc)
    rd = k.rd(cc)
    # open waiter: if set → resolved (unless cancelled) and cleared
    res = [n_.id for n_, c in k.call_nodes(cc, lambda c: is_call(
        c, 'set_exception', 'self._open_waiter') or
        is_call(c, 'set_result', 'self._open_waiter'))]
    clr = [n_.id for n_, v in k.stores_to(cc, 'self._open_waiter')
           if isinstance(v, ast.Constant) and v.value is None]
    ow = [a for a in g.nodes if a.kind == 'atom' and
          dotted(a.ast) == 'self._open_waiter']
    okw = bool(res) and bool(clr) and bool(ow)
    if okw:
        for a in ow:
            for b, lab in g.succ[a.id]:
                if lab is True:
                    # every path from here to exit clears; resolve unless
                    # cancelled
                    if g.path(b, g.exit, blocked_nodes=clr,
                              follow_exc=False) is not None:
                        okw = False

                    def canc(x: Node) -> Optional[bool]:
                        return True if x.kind == 'atom' and is_call(
                            x.ast, 'cancelled') else None
                    p = g.path(b, g.exit, blocked_nodes=res, follow_exc=False,
                               blocked_edge=lambda s, d, l: canc(
                                   g.nodes[s]) is not None and l is True)
                    if p is not None:
                        okw = False
    rep.check(okw, 'C09.R1', key(cc, 'open waiter'),
              'a pending channel open is failed and the slot cleared',
              'SSHChannel._cleanup can leave the open waiter unresolved',
              cc.loc(cc.node))
    # request waiters: loop over all, resolve each, reset list
    loops = [x for x in walk_shallow(cc.node) if isinstance(x, ast.For) and
             dotted(x.iter) == 'self._request_waiters']
    okr = False
    if len(loops) == 1:
        lp = loops[0]
        tv = dotted(lp.target)
        sets = [c for c in ast.walk(lp) if isinstance(c, ast.Call) and
                isinstance(c.func, ast.Attribute) and
                c.func.attr in ('set_result', 'set_exception') and
                dotted(c.func.value) == tv]
        brk = any(isinstance(x, (ast.Break, ast.Return)) for x in ast.walk(lp))
        okr = len(sets) >= 2 and not brk
    rst = [1 for n_, v in k.stores_to(cc, 'self._request_waiters')
           if isinstance(v, ast.List) and not v.elts]
    rep.check(okr and bool(rst), 'C09.R1', key(cc, 'request waiters'),
              'every pending channel request is completed and the list reset',
              'SSHChannel._cleanup does not complete every pending request '
              'waiter', cc.loc(cc.node))
    # close event on every path
    for fq, ev in ((CH + '_cleanup', 'self._close_event'),
                   (CONN + '_cleanup', 'self._close_event')):
        f = k.func(fq)
        gg = k.cfg(f)
        sets = [n_.id for n_, c in k.calls_named(f, 'set', ev)]
        w = gg.path(gg.entry, gg.exit, blocked_nodes=sets, follow_exc=False)
        rep.check(bool(sets) and w is None, 'C09.R1', key(f, 'close event'),
                  'wait_closed() is released on every cleanup path',
                  f'{fq} has a path that does not set the close event: '
                  'wait_closed() hangs', f.loc(f.node),
                  gg.describe_path(w) if w else None)
    # connection cleanup: global request waiters
    cn = k.func(CONN + '_cleanup')
    src = unparse(cn.node)
    wl = [x for x in walk_shallow(cn.node) if isinstance(x, ast.While) and
          dotted(x.test) == 'self._global_request_waiters']
    okg = len(wl) == 1 and any(is_call(c, '_process_global_response', 'self')
                               for c in ast.walk(wl[0]))
    rep.check(okg, 'C09.R1', key(cn, 'global request waiters'),
              'pending global requests are failed until none is left',
              'SSHConnection._cleanup does not fail pending global requests',
              cn.loc(cn.node))
    gr = k.func(CONN + '_process_global_response')
    rep.check(any(is_call(c, 'pop', 'self._global_request_waiters')
                  for c in walk_shallow(gr.node)) and
              any(is_call(c, 'set_result') for c in walk_shallow(gr.node)),
              'C09.R1', key(gr, 'pop and resolve'),
              'a response pops and resolves the oldest waiter',
              '_process_global_response no longer pops/resolves a waiter '
              '(the cleanup loop would spin or waiters hang)',
              gr.loc(gr.node))
    # connect waiter
    g2 = k.cfg(cn)
    ws = [n_ for n_, c in k.call_nodes(cn, lambda c: is_call(
        c, 'set_exception', 'self._waiter') or
        is_call(c, 'set_result', 'self._waiter'))]
    rep.check(len(ws) >= 2, 'C09.R1', key(cn, 'connect waiter'),
              'a pending connect() is completed on cleanup',
              'the connect waiter is not completed on cleanup',
              cn.loc(cn.node))
    # SFTP client
    sc = k.func('sftp.SFTPClientHandler._cleanup')
    loops = [x for x in walk_shallow(sc.node) if isinstance(x, ast.For) and
             'self._requests' in unparse(x.iter)]
    oks = len(loops) == 1 and any(
        is_call(c, 'set_exception') for c in ast.walk(loops[0])) and \
        not any(isinstance(x, (ast.Break, ast.Return))
                for x in ast.walk(loops[0]))
    rst = [1 for n_, v in k.stores_to(sc, 'self._requests')
           if isinstance(v, ast.Dict) and not v.keys]
    rep.check(oks and bool(rst), 'C09.R1', key(sc, 'SFTP requests'),
              'every outstanding SFTP request is failed and the table reset',
              'SFTPClientHandler._cleanup leaves requests pending',
              sc.loc(sc.node))
    # recv_packets always ends in _cleanup
    rp = k.func('sftp.SFTPHandler.recv_packets')
    gg = k.cfg(rp)
    cl = [n_.id for n_, c in k.calls_named(rp, '_cleanup', 'self')]
    w = None
    handled = set()
    for t in walk_shallow(rp.node):
        if isinstance(t, ast.Try):
            for h in t.handlers:
                cleans = any(is_call(c, '_cleanup', 'self')
                             for x in h.body for c in ast.walk(x))
                for e in ([] if h.type is None else (
                        h.type.elts if isinstance(h.type, ast.Tuple)
                        else [h.type])):
                    if cleans:
                        handled.add((dotted(e) or '').split('.')[-1])
    rep.check(bool(cl) and w is None and
              {'PacketDecodeError', 'EOFError', 'OSError', 'Error'} <= handled,
              'C09.R1', key(rp, 'loop exit cleans up'),
              'every way out of the SFTP packet loop (EOF, decode, OS and '
              'SSH errors) runs the cleanup',
              'the SFTP packet loop can end (e.g. on an OSError from the '
              'transport) without running _cleanup: outstanding requests '
              'hang', rp.loc(rp.node))
    # stream session
    cl_ = k.func('stream.SSHStreamSession.connection_lost')
    gg = k.cfg(cl_)
    src = unparse(cl_.node)
    dr = [x for x in walk_shallow(cl_.node) if isinstance(x, ast.For) and
          dotted(x.iter) == 'self._drain_waiters' and any(
              is_call(c, '_unblock_drain', 'self') for c in ast.walk(x))]
    er = [n_.id for n_, c in k.calls_named(cl_, 'eof_received', 'self')]
    okeof = bool(er) and gg.guarded_by(er[0], lambda x: False if
                                       x.kind == 'atom' and dotted(x.ast) ==
                                       'self._eof_received' else None) is None
    # on the not-yet-EOF edge eof_received must always be called
    eofatoms = [a for a in gg.nodes if a.kind == 'atom' and
                dotted(a.ast) == 'self._eof_received']
    for a in eofatoms:
        for b, lab in gg.succ[a.id]:
            if lab is False and gg.path(b, gg.exit, blocked_nodes=er,
                                        follow_exc=False) is not None:
                okeof = False
    stl = [1 for n_, v in k.stores_to(cl_, 'self._connection_lost')
           if isinstance(v, ast.Constant) and v.value is True]
    # ... and the drain-waiter loop is reached on every normal path
    heads = [n_.id for n_ in gg.nodes if n_.kind == 'loop' and
             isinstance(n_.ast, ast.For) and any(n_.ast is d for d in dr)]
    drain_all = bool(heads) and gg.must_pass(heads, follow_exc=False) is None
    rep.check(drain_all, 'C09.R1', key(cl_, 'drainers woken on every path'),
              'the drain-waiter release loop runs on every path through '
              'connection_lost',
              'connection_lost releases drain() waiters only on some paths '
              '(e.g. not when the peer had already sent EOF): a task blocked '
              'in drain() is never woken', cl_.loc(cl_.node),
              gg.describe_path(gg.must_pass(heads, follow_exc=False))
              if heads and not drain_all else None)
    rep.check(len(dr) == 1 and okeof and bool(stl), 'C09.R1',
              key(cl_, 'readers and drainers woken'),
              'connection_lost wakes every reader (via EOF) and drainer',
              'stream connection_lost does not wake all readers/drainers',
              cl_.loc(cl_.node))
    # SSHProcess._should_block_drain also blocks while a redirect reader
    # feeds the data type: whoever removes readers re-evaluates the drain
    # waiters afterwards
    proc = idx.cls('process.SSHProcess')
    rsites = 0
    for f in proc.methods.values():
        gp = None
        for x in ast.walk(f.node):
            removes = False
            if isinstance(x, ast.Assign) and any(
                    dotted(t) == 'self._readers' for t in x.targets) and \
                    f.name != '__init__':
                removes = True
            if isinstance(x, ast.Delete) and any(
                    isinstance(t, ast.Subscript) and
                    dotted(t.value) == 'self._readers' for t in x.targets):
                removes = True
            if not removes:
                continue
            gp = gp or k.cfg(f)
            nd = gp.node_for(x)
            if nd is None:
                continue
            rsites += 1
            ub = [n_.id for n_, c in k.calls_named(f, '_unblock_drain',
                                                   'self')]
            ub += [n_.id for n_ in gp.nodes if n_.kind == 'loop' and any(
                is_call(c, '_unblock_drain', 'self')
                for c in ast.walk(n_.ast) if isinstance(c, ast.Call))]
            w = gp.path(nd.id, gp.exit, blocked_nodes=ub, follow_exc=False)
            rep.check(bool(ub) and w is None, 'C09.R1',
                      key(f, 'drain waiters re-evaluated after readers go'),
                      'removing redirect readers is followed by '
                      '_unblock_drain',
                      f'{f.qual} removes redirect readers, which is what '
                      'SSHProcess._should_block_drain waits for, without '
                      'calling _unblock_drain afterwards: a task in '
                      'stdin.drain() while stdin is redirected is never '
                      'woken when the channel closes',
                      k.loc(f, nd), gp.describe_path(w) if w else None)
    rep.floor('C09.R1', 'redirect reader removal sites', rsites, 2)
    ef = k.func('stream.SSHStreamSession.eof_received')
    rep.check(any(isinstance(x, ast.For) and
                  dotted(x.iter) == 'self._read_waiters' and any(
                      is_call(c, '_unblock_read', 'self')
                      for c in ast.walk(x)) for x in walk_shallow(ef.node)),
              'C09.R1', key(ef, 'wake readers'),
              'EOF wakes the reader of every data type',
              'EOF does not wake every reader', ef.loc(ef.node))
    sb = k.func('stream.SSHStreamSession._should_block_drain')
    rep.check('self._connection_lost' in unparse(sb.node), 'C09.R1',
              key(sb, 'no blocking after loss'),
              'drain never blocks once the connection is lost',
              'drain() can block after the connection is lost',
              sb.loc(sb.node))


def r2(k: Kit) -> None:
    rep = k.rep
    idx = k.idx
    rep.rule('C09.R2', 'connection cleanup closes every channel, listener, '
             'auth attempt, timers and tunnel; each channel cleanup notifies '
             'its session and deregisters; _flush_recv_buf (complete table) '
             'schedules the cleanup whenever a close is pending and no data '
             'is buffered, whatever the reading state')
    cn = k.func(CONN + '_cleanup')
    need = {
        'channels': lambda: any(isinstance(x, ast.For) and
                                'self._channels' in unparse(x.iter) and any(
                                    is_call(c, 'process_connection_close')
                                    for c in ast.walk(x))
                                for x in walk_shallow(cn.node)),
        'local listeners': lambda: any(
            isinstance(x, ast.For) and 'self._local_listeners' in
            unparse(x.iter) and any(is_call(c, 'close')
                                    for c in ast.walk(x))
            for x in walk_shallow(cn.node)),
        'auth cancelled': lambda: any(is_call(c, 'cancel', 'self._auth')
                                      for c in walk_shallow(cn.node)),
        'keepalive timer': lambda: any(
            is_call(c, '_cancel_keepalive_timer', 'self')
            for c in walk_shallow(cn.node)),
        'login timer': lambda: any(is_call(c, '_cancel_login_timer', 'self')
                                   for c in walk_shallow(cn.node)),
        'tunnel': lambda: any(is_call(c, 'close', 'self._tunnel')
                              for c in walk_shallow(cn.node)),
    }
    for what, pred in need.items():
        rep.check(pred(), 'C09.R2', key(cn, what), f'{what}: released',
                  f'SSHConnection._cleanup no longer releases: {what}',
                  cn.loc(cn.node))
    for sub in ('connection.SSHClientConnection',
                'connection.SSHServerConnection'):
        c = idx.cls(sub)
        m = c.methods.get('_cleanup')
        if m is not None:
            rep.check(any(is_call(x, '_cleanup', 'super()')
                          for x in walk_shallow(m.node)), 'C09.R2',
                      key(m, 'super cleanup'), 'subclass cleanup chains up',
                      f'{m.qual} does not call super()._cleanup',
                      m.loc(m.node))
    pc = k.func(CH + 'process_connection_close')
    g = k.cfg(pc)
    cl = [n.id for n, c in k.calls_named(pc, '_cleanup', 'self')]
    w = g.path(g.entry, g.exit, blocked_nodes=cl, follow_exc=False)
    rep.check(bool(cl) and w is None, 'C09.R2', key(pc, 'channel cleaned'),
              'a lost connection cleans up the channel immediately',
              'process_connection_close may skip the channel cleanup',
              pc.loc(pc.node))
    cc = k.func(CH + '_cleanup')
    rep.check(any(is_call(c, 'remove_channel') for c in walk_shallow(cc.node)),
              'C09.R2', key(cc, 'deregister'),
              'the channel is removed from the connection',
              'a cleaned-up channel stays registered', cc.loc(cc.node))
    # _flush_recv_buf table
    fr = k.func(CH + '_flush_recv_buf')
    space = {'buf': [0, 1, 2], 'paused': [False, True, 'starting'],
             'state': ['open', 'eof_pending', 'eof', 'close_pending',
                       'closed'],
             'send_state': ['open', 'eof', 'closed'],
             'session_eof': [True, False]}
    rows: Dict[str, int] = {}
    bad: Dict[str, str] = {}
    n = 0
    for s in product(space):
        n += 1
        buf = [(b'd%d' % i, None) for i in range(s['buf'])]

        def on_call(name, args, env, s=s):
            if name == 'self._session.eof_received':
                return s['session_eof']
            return Obj('x')
        val = {'self._recv_buf': buf, 'self._recv_paused': s['paused'],
               'self._recv_state': s['state'],
               'self._send_state': s['send_state'],
               'self._encoding': None, 'self._session': Obj('SESSION'),
               'self._decoder': None}
        try:
            o = evaluate(idx, fr.module, fr.node.body, val, {'exc': None},
                         on_call)
        except NotEvaluable as exc:
            rep.error('C09.R2', 'not-evaluable', str(exc))
            return
        delivered = len([1 for nm, a in o.calls if nm == 'self._deliver_data'])
        cleanup = [a for nm, a in o.calls if nm == 'self._loop.call_soon']
        eofs = [1 for nm, a in o.calls if nm == 'self._session.eof_received']
        left = s['buf'] if s['paused'] else 0
        newstate = dict(o.stores).get('self._recv_state', s['state'])

        def row(name, cond, req, why):
            if cond:
                rows[name] = rows.get(name, 0) + 1
                if not req and name not in bad:
                    bad[name] = f'{why}; state {s}; outcome {o}'
        row('data delivered iff not paused', True,
            delivered == (0 if s['paused'] else s['buf']),
            'buffered data not delivered exactly when reading is enabled')
        row('pending close with empty buffer is completed',
            s['state'] == 'close_pending' and left == 0,
            len(cleanup) == 1 and newstate == 'closed',
            'a pending close with nothing buffered does not schedule the '
            'channel cleanup (waiters and the session hang until the whole '
            'connection dies)')
        row('no cleanup while data is buffered or no close pending',
            s['state'] != 'close_pending' or left > 0, not cleanup,
            'cleanup scheduled although data is still buffered / no close '
            'pending')
        row('EOF delivered once data is out', s['state'] == 'eof_pending'
            and left == 0 and s['paused'] != 'starting',
            len(eofs) == 1 and newstate == 'eof', 'EOF not delivered')
        row('no EOF while data is buffered', s['state'] == 'eof_pending' and
            left > 0, not eofs, 'EOF delivered before buffered data')
    rep.count('eval.flush_recv_states', n)
    for name in sorted(rows):
        rep.check(name not in bad, 'C09.R2', key(fr, 'row: ' + name),
                  f'holds in all {rows[name]} states', bad.get(name, ''),
                  fr.loc(fr.node))
    rep.floor('C09.R2', 'flush_recv rows', len(rows), 5)


def r3(k: Kit) -> None:
    rep = k.rep
    rep.rule('C09.R3', 'connection_lost(exc) is delivered to a session / '
             'owner only while the reference is set and the reference is '
             'cleared on every path after it; _force_close is single-shot '
             'and is the only scheduler of SSHConnection._cleanup')
    for fq, ref in ((CH + '_cleanup', 'self._session'),
                    (CONN + '_cleanup', 'self._owner')):
        f = k.func(fq)
        g = k.cfg(f)
        calls = [n for n, c in k.calls_named(f, 'connection_lost', ref)]
        rep.floor('C09.R3', f'{fq} notification sites', len(calls), 1)
        for n in calls:
            def isset(x: Node, ref=ref) -> Optional[bool]:
                a = x.ast
                if x.kind != 'atom':
                    return None
                if dotted(a) == ref:
                    return True
                if isinstance(a, ast.Compare) and dotted(a.left) == ref and \
                        isinstance(a.ops[0], ast.IsNot):
                    return True
                return None
            w = g.guarded_by(n.id, isset)
            clr = [x.id for x, v in k.stores_to(f, ref)
                   if isinstance(v, ast.Constant) and v.value is None]
            w2 = g.path(n.id, g.exit, blocked_nodes=clr, follow_exc=True)
            # exception edge out of the call must also reach the clear
            rep.check(w is None and bool(clr) and w2 is None, 'C09.R3',
                      key(f, f'notify {ref} once'),
                      'notified only if still referenced; reference cleared '
                      'afterwards on every path (also when the callback '
                      'raises)', f'{ref}.connection_lost can be delivered '
                      'twice: not guarded by / not followed by clearing the '
                      'reference', k.loc(f, n))
    fc = k.func(CONN + '_force_close')
    g = k.cfg(fc)
    sch = [n for n, c in k.call_nodes(fc, lambda c: is_call(c, 'call_soon')
                                      and '_cleanup' in unparse(c))]
    for n in sch:
        w = g.guarded_by(n.id, atom_truthy_of('self._transport'))
        clr = [x.id for x, v in k.stores_to(fc, 'self._transport')
               if isinstance(v, ast.Constant) and v.value is None]
        w2 = g.path(g.entry, n.id, blocked_nodes=clr)
        rep.check(w is None and bool(clr) and w2 is None, 'C09.R3',
                  key(fc, 'single shot'),
                  'cleanup scheduled once: transport checked and cleared '
                  'first', '_force_close can schedule the cleanup twice',
                  k.loc(fc, n))
    rep.floor('C09.R3', 'cleanup scheduling in _force_close', len(sch), 1)
    others = []
    for f in k.idx.iter_funcs(['connection']):
        if f.cls is None or not k.idx.is_subclass(f.cls, 'SSHConnection'):
            continue
        for c in walk_shallow(f.node):
            if isinstance(c, ast.Call) and any(
                    dotted(a) == 'self._cleanup' for a in c.args) and \
                    f.qual != CONN + '_force_close':
                others.append(f.qual)
            if is_call(c, '_cleanup', 'self') and not f.name == '_cleanup':
                others.append(f.qual)
    rep.check(not others, 'C09.R3', 'who-may-schedule SSHConnection._cleanup',
              'only _force_close schedules the connection cleanup',
              f'connection cleanup also started from {sorted(set(others))}')


def r4(k: Kit) -> None:
    rep = k.rep
    rep.rule('C09.R4', 'CHANNEL_CLOSE is sent only from _close_send, under '
             'send_state != closed, and the state becomes closed on the same '
             'path; every scheduling of the channel cleanup follows '
             'recv_state = closed (or is an open-failure path); each inbound '
             'handler tests the receive state first')
    cs = k.func(CH + '_close_send')
    g = k.cfg(cs)
    snd = [n for n, c in k.calls_named(cs, 'send_packet', 'self')
           if c.args and dotted(c.args[0]) == 'MSG_CHANNEL_CLOSE']
    rep.floor('C09.R4', 'CLOSE send sites', len(snd), 1)
    for n in snd:
        def notclosed(x: Node) -> Optional[bool]:
            a = x.ast
            if x.kind == 'atom' and isinstance(a, ast.Compare) and \
                    dotted(a.left) == 'self._send_state' and \
                    isinstance(a.comparators[0], ast.Constant) and \
                    a.comparators[0].value == 'closed':
                if isinstance(a.ops[0], ast.NotEq):
                    return True
                if isinstance(a.ops[0], ast.Eq):
                    return False
            return None
        w = g.guarded_by(n.id, notclosed)
        st = [x.id for x, v in k.stores_to(cs, 'self._send_state')
              if isinstance(v, ast.Constant) and v.value == 'closed']
        w2 = g.path(n.id, g.exit, blocked_nodes=st, follow_exc=False)
        rep.check(w is None and bool(st) and w2 is None, 'C09.R4',
                  key(cs, 'close once'),
                  'CLOSE sent at most once (state checked, then set)',
                  'CHANNEL_CLOSE can be sent twice', k.loc(cs, n))
    # cleanup scheduling sites
    sites = 0
    for f in k.idx.iter_funcs(['channel']):
        if f.cls is None or not k.idx.is_subclass(f.cls, 'SSHChannel'):
            continue
        gg = None
        for c in walk_shallow(f.node):
            if is_call(c, 'call_soon') and any(
                    dotted(a) == 'self._cleanup' for a in c.args):
                sites += 1
                gg = gg or k.cfg(f)
                cn = gg.node_for(c)
                st = [x.id for x, v in k.stores_to(f, 'self._recv_state')
                      if isinstance(v, ast.Constant) and v.value == 'closed']
                w = gg.path(gg.entry, cn.id, blocked_nodes=st)
                open_fail = f.name in ('_finish_open_request',
                                       'process_open_failure',
                                       '_service_next_request', '_open')
                rep.check((bool(st) and w is None) or open_fail, 'C09.R4',
                          key(f, 'cleanup after recv closed'),
                          'cleanup scheduled with the receive side closed',
                          f'{f.qual} schedules the channel cleanup without '
                          'marking the receive side closed (a second close '
                          'path can schedule it again)', f.loc(c))
    rep.floor('C09.R4', 'cleanup scheduling sites', sites, 3)
    for hn, states in (('_process_window_adjust', None),
                       ('_process_data', None), ('_process_extended_data', None),
                       ('_process_eof', None), ('_process_close', None),
                       ('_process_request', None)):
        f = k.func(CH + hn)
        gg = k.cfg(f)
        tests = [a for a in gg.nodes if a.kind == 'atom' and
                 'self._recv_state' in names_read(a.ast)]
        gets = [n for n, c in k.call_nodes(f, lambda c: isinstance(
            c.func, ast.Attribute) and (c.func.attr.startswith('get_') or
                                        c.func.attr == 'check_end'))]
        okh = bool(tests) and all(
            gg.path(gg.entry, x.id, blocked_nodes=[t.id for t in tests])
            is None for x in gets)
        rep.check(okh, 'C09.R4', key(f, 'state test first'),
                  'receive state tested before the message is processed',
                  f'{hn} processes a message without first testing the '
                  'receive state (data/EOF/close after close)', f.loc(f.node))
    pr = k.func(CH + '_process_response')
    gg = k.cfg(pr)
    pops = [n for n, c in k.calls_named(pr, 'pop', 'self._request_waiters')]
    for n in pops:
        w = gg.guarded_by(n.id, atom_truthy_of('self._request_waiters'))
        rep.check(w is None, 'C09.R4', key(pr, 'response needs a waiter'),
                  'a response is only consumed with a request outstanding',
                  'an unsolicited channel response is accepted',
                  k.loc(pr, n))


def r5(k: Kit) -> None:
    """close() / abort() from every send state."""
    rep = k.rep
    idx = k.idx
    rep.rule('C09.R5', 'SSHChannel.close and abort evaluated from each of '
             'the five send states x two receive states (helper predicates '
             'inlined): unless a CLOSE is already pending or sent, close() '
             'moves to close_pending and flushes (which sends CLOSE once the '
             'buffer is empty); abort() sends CLOSE at once unless it was '
             'sent - also after a local EOF and also when close() left it '
             'pending behind unsent data; the receive side is discarded '
             'unless closed')
    cls = idx.cls('channel.SSHChannel')
    for name, want_call in (('close', 'self._flush_send_buf'),
                            ('abort', 'self._close_send')):
        fi = k.func(CH + name)
        body = [st for st in fi.node.body if not (
            isinstance(st, ast.Expr) and isinstance(st.value, ast.Constant))]
        bad = None
        n = 0
        for ss in ('open', 'eof_pending', 'eof', 'close_pending', 'closed'):
            for rs in ('open', 'closed'):
                n += 1
                val = {'self._send_state': ss, 'self._recv_state': rs}

                def on_call(nm, args, env, val=val):
                    if nm.startswith('self.') and nm.count('.') == 1 and \
                            nm[5:] in cls.methods and nm[5:] in (
                                'is_closing',):
                        fn = cls.methods[nm[5:]]
                        o2 = evaluate(idx, fn.module, fn.node.body,
                                      dict(val), {},
                                      lambda a, b, c: Obj('x'))
                        return o2.value
                    return Obj('x')
                try:
                    o = evaluate(idx, fi.module, body, val, {}, on_call)
                except NotEvaluable as exc:
                    rep.error('C09.R5', key(fi, 'not-evaluable'), str(exc))
                    return
                acted = bool(o.called(want_call))
                should = ss not in ('close_pending', 'closed')
                if name == 'abort':
                    # a CLOSE that close() left pending behind unsent data
                    # is forced out; _close_send itself sends nothing once
                    # the state is 'closed' (C09.R4), so a call there is idle
                    should = ss != 'closed'
                    if ss == 'closed':
                        acted = False
                if acted != should:
                    bad = bad or (
                        f'{name}() with send state {ss!r}: '
                        f'{want_call} {"not " if should else ""}called'
                        + (' - close() then abort() while the peer keeps '
                           'its window shut: the CLOSE stays queued behind '
                           'data that is never sent and wait_closed() pends '
                           'for ever' if should and ss == 'close_pending' else
                           ' - no CHANNEL_CLOSE is ever sent, so the peer '
                           'never answers with CLOSE and wait_closed() / '
                           'run() hang' if should else
                           ' - CLOSE would be sent twice'))
                if name == 'close' and should and \
                        ('self._send_state', 'close_pending') not in o.stores:
                    bad = bad or (f'close() with send state {ss!r} does not '
                                  'move to close_pending')
                disc = bool(o.called('self._discard_recv'))
                if disc != (rs != 'closed'):
                    bad = bad or (f'{name}() with receive state {rs!r}: '
                                  'discard of unreceived data '
                                  f'{"missing" if rs != "closed" else "repeated"}')
        rep.count('eval.close_states', n)
        rep.check(bad is None, 'C09.R5', key(fi, 'close table'),
                  f'{n} (send, receive) states: CLOSE initiated unless '
                  'already pending or sent', str(bad), fi.loc(fi.node))


def r6(k: Kit) -> None:
    """A peer that silently disappears is detected by the keepalive count."""
    rep = k.rep
    idx = k.idx
    rep.rule('C09.R6', 'keepalive: the timer callback increments '
             '_keepalive_count before comparing it with the maximum, calls '
             'connection_lost when it is exceeded and otherwise re-arms the '
             'timer and starts a request; no code that runs synchronously '
             'from the callback stores to the counter, and a coroutine clears '
             'it only past an await (the reply) - a silent peer is declared '
             'dead after count_max intervals and every waiter is released')
    conn = idx.cls('connection.SSHConnection')
    cb = k.func(CONN + '_keepalive_timer_callback')
    g = k.cfg(cb)
    incs = [n for n in g.nodes if isinstance(n.ast, ast.AugAssign) and
            dotted(n.ast.target) == 'self._keepalive_count' and
            isinstance(n.ast.op, ast.Add)]
    cmps = [n for n in g.nodes if n.kind == 'atom' and
            isinstance(n.ast, ast.Compare) and
            'self._keepalive_count' in norm(n.ast) and
            'self._keepalive_count_max' in norm(n.ast)]
    rep.floor('C09.R6', 'keepalive count compare', len(cmps), 1)
    for c in cmps:
        w = g.must_pass([n.id for n in incs], dst=c.id)
        rep.check(w is None and bool(incs), 'C09.R6',
                  key(cb, 'count incremented before compare'),
                  'every path to the compare passes the increment',
                  'the unanswered-keepalive counter is not incremented on a '
                  'path to its comparison: the limit is never reached',
                  k.loc(cb, c), g.describe_path(w) if w else None)
        exceeded = isinstance(c.ast.ops[0], (ast.Gt, ast.GtE)) and \
            dotted(c.ast.left) == 'self._keepalive_count'
        rep.check(exceeded, 'C09.R6', key(cb, 'compare orientation'),
                  'count > max', 'unexpected compare ' + norm(c.ast),
                  k.loc(cb, c))
        for label, tails, why in (
                (True, ['connection_lost'], 'limit exceeded but '
                 'connection_lost is not called: nothing ever fails the '
                 'pending operations of a silently lost connection'),
                (False, ['_set_keepalive_timer'], 'timer not re-armed '
                 'below the limit: probing stops after one interval'),
                (False, ['create_task'], 'no keepalive request started')):
            succ = [b for b, l in g.succ[c.id] if l is label]
            hits = [n.id for n in g.nodes for cc in g.calls_at(n)
                    if any(is_call(cc, t, 'self') for t in tails)]
            bad = None
            for sx in succ:
                if sx in hits:
                    continue
                bad = g.path(sx, g.exit, blocked_nodes=hits,
                             follow_exc=False)
                if sx == g.exit:
                    bad = [sx]
                if bad:
                    break
            rep.check(bool(succ) and bad is None, 'C09.R6',
                      key(cb, f'{"over" if label else "under"} limit: '
                          f'{tails[0]}'),
                      f'every {label} path calls {tails[0]}', why,
                      k.loc(cb, c), g.describe_path(bad) if bad else None)
    # who stores to the counter
    closure: Set[str] = set()
    work = [cb]
    while work:
        fi = work.pop()
        if fi.qual in closure:
            continue
        closure.add(fi.qual)
        for c in ast.walk(fi.node):
            if isinstance(c, ast.Call) and isinstance(c.func, ast.Attribute) \
                    and dotted(c.func.value) == 'self':
                for cl in [conn] + idx.all_subclasses(conn):
                    m = cl.methods.get(c.func.attr)
                    if m is not None and not m.is_async and \
                            m.name != 'connection_lost':
                        work.append(m)
    n_st = 0
    for fi in idx.iter_funcs(['connection']):
        for n, v in k.stores_to(fi, 'self._keepalive_count'):
            if isinstance(n.ast, ast.AugAssign):
                ok = fi.qual == cb.qual
                rep.check(ok, 'C09.R6', key(fi, 'counter increment'),
                          'only the timer callback counts',
                          'counter incremented outside the timer callback',
                          k.loc(fi, n))
                continue
            n_st += 1
            if fi.name == '__init__':
                continue
            g2 = k.cfg(fi)
            if fi.is_async:
                aw = [m.id for m in g2.nodes if m.ast is not None and any(
                    isinstance(x, ast.Await)
                    for r in g2.node_roots(m) for x in walk_shallow(r))
                    and m.id != n.id]
                w = g2.must_pass(aw, dst=n.id)
                rep.check(w is None, 'C09.R6',
                          key(fi, 'counter cleared after the reply'),
                          'the store is dominated by an await',
                          'the unanswered-keepalive counter is cleared '
                          'before anything was awaited: it is reset without '
                          'a reply from the peer', k.loc(fi, n),
                          g2.describe_path(w) if w else None)
            else:
                rep.check(fi.qual not in closure, 'C09.R6',
                          key(fi, 'counter not cleared by the timer path'),
                          'not in the synchronous call closure of the timer '
                          'callback',
                          f'{fi.qual} runs synchronously from the keepalive '
                          'timer callback and clears the unanswered-'
                          'keepalive counter: the limit is never reached and '
                          'a silently lost connection is never declared '
                          'dead - every pending operation waits forever',
                          k.loc(fi, n))
    rep.floor('C09.R6', 'keepalive counter stores', n_st, 2)


def run(idx, rep, tier):
    k = Kit(idx, rep)
    rep.assumptions += NOT_DECIDED
    r1(k)
    r2(k)
    r3(k)
    r4(k)
    r5(k)
    r6(k)
    from .shared import communicate_resumes
    rep.rule('C09.R7', 'wait() / communicate() re-run the resume test after '
             'lifting the buffer limit (= clause of C08.R9): otherwise a '
             'channel paused by unread output never processes the peer\'s '
             'CLOSE and wait() never returns')
    communicate_resumes(k, 'C09.R7')
    # C09.R8: shared rule
    from .c20 import r4 as _c20r4
    rep.rule('C09.R8', 'early data and EOF of a local forward (= C20.R4): input and an EOF that arrived while the channel was being opened are both replayed, so the destination sees end of input and the pair can finish')
    _before = len(rep.obligations)
    _c20r4(k)
    for o in rep.obligations[_before:]:
        o.rule = 'C09.R8'
    rep.rule('C09.R9', 'what SSHConnection.wait_closed awaits, the cleanup '
             'closes: SSHClientConnection._cleanup closes the ssh-agent '
             'client on every path where one is open (wait_closed awaits '
             'agent.wait_closed() first; an agent left open after a failed '
             'or lost authentication makes connect() hang in its own '
             'clean-up instead of raising)')
    _wc = k.func(CONN + 'wait_closed')
    _aw = [c for c in ast.walk(_wc.node) if is_call(c, 'wait_closed',
                                                    'self._agent')]
    rep.floor('C09.R9', 'agent wait in wait_closed', len(_aw), 1)
    _cl = k.func('connection.SSHClientConnection._cleanup')
    _g = k.cfg(_cl)
    _closes = [n.id for n, c in k.calls_named(_cl, 'close', 'self._agent')]
    _w = _g.guarded_by(_g.exit, lambda x: False if x.kind == 'atom' and
                       dotted(x.ast) == 'self._agent' else None,
                       extra_blocked=_closes)
    rep.check(bool(_closes) and _w is None, 'C09.R9',
              key(_cl, 'agent closed with the connection'),
              'self._agent.close() unless there is no agent',
              'the client cleanup leaves the ssh-agent connection open: '
              'wait_closed() then waits for agent.wait_closed() for ever - '
              'connect() to a server that rejects every agent key hangs '
              'instead of raising PermissionDenied', _cl.loc(_cl.node),
              _g.describe_path(_w) if _w else None)
    # C09.R10: shared rule
    from .c10 import r2 as _c10r2
    rep.rule('C09.R10', 'loops that wait for a peer make progress or fail (= C10.R2 progress rules): the remote-to-remote SCP block loop treats an empty read as a lost source and raises, it does not go round again with the offset unchanged')
    _before = len(rep.obligations)
    _c10r2(k, tier)
    _kept = [o for o in rep.obligations[_before:] if 'scp' in o.key.lower()]
    del rep.obligations[_before:]
    rep.obligations.extend(_kept)
    rep.floor('C09.R10', 'shared rows', len(_kept), 1)
    for o in rep.obligations[_before:]:
        o.rule = 'C09.R10'
    from .c14 import sftp_init_guarded
    rep.rule('C09.R11', 'closing an sftp channel before FXP_INIT, or a malformed version exchange, ends that session only (= C14.R14): exit() runs, the connection and its other sessions live on')
    sftp_init_guarded(k, 'C09.R11')
    rep.rule('C09.R12', 'redirect writers fed through a queue '
             '(_StreamWriter._feed, _AsyncFileWriter._writer): every item '
             'taken from the queue is marked done on every path, the failing '
             'one included, and when the feeder ends - normally or with an '
             'exception from write() / drain() - it clears _write_task and '
             'empties the queue, so that close() queues nothing more and '
             'the queue.join() that wait_closed() awaits can finish')
    _n = 0
    for _q in ('process._StreamWriter._feed', 'process._AsyncFileWriter._writer'):
        _fi = k.func(_q)
        _g = k.cfg(_fi)
        _gets = [n for n, c in k.calls_named(_fi, 'get', 'self._queue')]
        _done = [n.id for n, c in k.calls_named(_fi, 'task_done',
                                                'self._queue')]
        _clr = [n.id for n, v in k.stores_to(_fi, 'self._write_task')
                if isinstance(v, ast.Constant) and v.value is None]
        rep.floor('C09.R12', f'queue reads in {_fi.qual}', len(_gets), 1)
        for _gn in _gets:
            _n += 1
            _bad = None
            for _b, _lab in _g.succ[_gn.id]:
                if _lab == 'exc':
                    continue
                for _dst in (_g.exit, _g.raise_exit):
                    _w = _g.path(_b, _dst, blocked_nodes=_done)
                    if _b in _done:
                        _w = None
                    _bad = _bad or _w
            rep.check(_bad is None, 'C09.R12',
                      key(_fi, 'every queued item is marked done'),
                      'task_done() on every path after get(), exceptions '
                      'included',
                      'an item taken from the queue is not marked done when '
                      'writing it fails: the feeder task dies, and the '
                      'queue.join() registered by close() - which '
                      'wait_closed() / wait() await - never completes '
                      '(stdout redirected to a StreamWriter whose peer '
                      'resets)', k.loc(_fi, _gn),
                      _g.describe_path(_bad) if _bad else None)
        _w = _g.path(_g.entry, _g.raise_exit, blocked_nodes=_clr)
        rep.check(bool(_clr) and _w is None, 'C09.R12',
                  key(_fi, 'a dead feeder is not waited for'),
                  'self._write_task = None before an exception leaves',
                  'the feeder can die with _write_task still set: close() '
                  'then queues its end marker for a task that no longer '
                  'runs and waits for it for ever', _fi.loc(_fi.node),
                  _g.describe_path(_w) if _w else None)
    r13(k)
    r14(k)
    # C09.R15: shared rule
    from .c11 import r2 as _c11r2
    rep.rule('C09.R15', 'deferred packets are never dropped (= C11.R2): the queue is swapped for a fresh list before it is replayed, so a CLOSE / EOF re-deferred by a re-key that the flush itself triggers is kept and the channel can finish closing')
    _before = len(rep.obligations)
    _c11r2(k)
    for o in rep.obligations[_before:]:
        o.rule = 'C09.R15'
    from .c08 import readuntil_gives_up_when_paused
    rep.rule('C09.R16', 'readline() / readuntil() do not wait while the stream is paused (= C08.R11): a reader looking for a separator further away than one window gives up instead of waiting for data that cannot arrive - also after the peer sent EOF and closed')
    readuntil_gives_up_when_paused(k, 'C09.R16')


def r13(k: Kit) -> None:
    """A session open that fails after the channel was opened closes it."""
    rep = k.rep
    rep.rule('C09.R13', 'SSHClientChannel.create: once _open() has '
             'returned, every raise of ChannelOpenError (pty, X11 attach, '
             'x11-req, exec/shell/subsystem refused) is preceded by '
             'self.close() - the caller never gets the channel, so nobody '
             'else can close it and its session would get connection_made '
             'but no connection_lost while the connection lives')
    fi = k.func('channel.SSHClientChannel.create')
    g = k.cfg(fi)
    opens = [n for n, c in k.calls_named(fi, '_open', 'self')]
    rep.floor('C09.R13', 'channel open in create', len(opens), 1)
    closes = [n.id for n, c in k.calls_named(fi, 'close', 'self')]
    raises = [n for n in g.nodes if isinstance(n.ast, ast.Raise) and
              isinstance(n.ast.exc, ast.Call) and
              call_name(n.ast.exc) == 'ChannelOpenError']
    rep.floor('C09.R13', 'ChannelOpenError raises in create', len(raises), 3)
    for r in raises:
        bad = None
        for o in opens:
            for b, lab in g.succ[o.id]:
                if lab == 'exc':
                    continue
                w = [b] if b == r.id else g.path(b, r.id,
                                                 blocked_nodes=closes)
                bad = bad or w
        rep.check(bad is None, 'C09.R13',
                  key(fi, f'closed before {norm(r.ast)[:60]}'),
                  'self.close() on every path from the open to this raise',
                  'the open fails with ChannelOpenError but the channel '
                  'that was already opened stays open and registered on '
                  'both sides; its session never sees connection_lost '
                  '(create_session(x11_forwarding=True) with an unreadable '
                  'Xauthority file, or a peer refusing x11-req)',
                  k.loc(fi, r), g.describe_path(bad) if bad else None)


def r14(k: Kit) -> None:
    """Channel tasks look at the channel again after they waited."""
    rep = k.rep
    idx = k.idx
    rep.rule('C09.R14', 'coroutines a channel starts as connection tasks '
             '(create_task(self._finish_...())): after every await, the '
             'request queue is answered (_report_response) and self._conn '
             'is used only behind a fresh test of self._conn - the channel '
             'may have been closed and cleaned up while the task waited, '
             'and an AttributeError in a connection task takes the whole '
             'connection down')
    mod = idx.module('channel')
    tasks = {}
    for ci in idx.classes.values():
        if ci.module is not mod:
            continue
        for m in ci.methods.values():
            for c in iter_calls(m.node):
                if is_call(c, 'create_task', 'self._conn') and c.args and \
                        isinstance(c.args[0], ast.Call) and \
                        (dotted(c.args[0].func) or '').startswith('self.'):
                    nm = dotted(c.args[0].func)[5:]
                    for sub in idx.classes.values():
                        if sub.module is mod and ci.qual in [
                                x.qual for x in idx.mro(sub)]:
                            t = sub.methods.get(nm)
                            if t is not None and isinstance(
                                    t.node, ast.AsyncFunctionDef):
                                tasks[t.qual] = t
    conn = atom_truthy_of('self._conn')
    n_aw = 0
    for q, fi in sorted(tasks.items()):
        g = k.cfg(fi)
        awaits = [n for n in g.nodes if n.ast is not None and any(
            isinstance(x, ast.Await) for r_ in g.node_roots(n)
            for x in walk_shallow(r_))]
        if not awaits:
            continue
        n_aw += len(awaits)
        sinks = [n for n, c in k.call_nodes(fi, lambda c: is_call(
            c, '_report_response', 'self') or (
                isinstance(c.func, ast.Attribute) and
                dotted(c.func.value) == 'self._conn'))]
        for sk in sinks:
            bad = None
            for a in awaits:
                if a.id == sk.id:
                    continue
                for b, lab in g.succ[a.id]:
                    if b != sk.id and g.path(b, sk.id) is None:
                        continue
                    w = [b] if b == sk.id else g.guarded_by(sk.id, conn,
                                                            start=b)
                    if w is not None:
                        bad = bad or w
            rep.check(bad is None, 'C09.R14',
                      key(fi, f'{norm(sk.ast)[:50]} after a re-check'),
                      'guarded by self._conn after every await',
                      'the task resumes on a channel that was closed '
                      'meanwhile (_cleanup cleared _conn and _session) and '
                      'goes on to answer queued requests: auth-agent-req, '
                      'exec, CLOSE in one burst makes _start_session '
                      'dereference None in a connection task, '
                      'internal_error() then closes the whole connection '
                      'and every other channel on it', k.loc(fi, sk),
                      g.describe_path(bad) if bad else None)
    rep.floor('C09.R14', 'channel task coroutines', len(tasks), 3)
    rep.floor('C09.R14', 'awaits in channel tasks', n_aw, 3)
    from .shared import share
    from .c07 import r8 as _c07r8
    share(k, 'C09.R17', 'data that arrives after a local close is discarded (= C07.R8 accept table): otherwise it can re-pause the channel behind the peer\'s CLOSE and the channel never finishes', _c07r8)
    from .shared import water_mark_table
    rep.rule('C09.R18', 'drain() returns once everything was sent (= C08.R9 water mark table): with a low-water mark of 0 the writer is resumed when the buffer is empty')
    water_mark_table(k, 'C09.R18')
    rep.rule('C09.R19', 'forward_tunneled_session: the process factory it '
             'hands to SSHServerProcess ends the downstream session on '
             'every path - process.exit() / exit_with_signal() / close() '
             'after the upstream process closed; a factory that just '
             'returns leaves the client without exit status and CLOSE '
             '(run() / wait_closed() hang although the upstream channel is '
             'gone)')
    _ft = k.func('connection.SSHServerConnection.forward_tunneled_session')
    _inner = [x for x in ast.walk(_ft.node) if isinstance(
        x, ast.AsyncFunctionDef) and x is not _ft.node]
    rep.floor('C09.R19', 'process factories', len(_inner), 1)
    from ..cfg import CFG as _CFG
    for _fn in _inner:
        _g2 = _CFG(_fn, k.idx.exc_is_subclass)
        _ends = [n.id for n in _g2.nodes for c in _g2.calls_at(n)
                 if isinstance(c.func, ast.Attribute) and c.func.attr in (
                     'exit', 'exit_with_signal', 'close') and
                 dotted(c.func.value) == 'process']
        _w = _g2.path(_g2.entry, _g2.exit, blocked_nodes=_ends,
                      follow_exc=False)
        rep.check(bool(_ends) and _w is None, 'C09.R19',
                  key(_ft, 'downstream session is ended'),
                  'process.exit / exit_with_signal / close on every path',
                  'session_requested() returning a connection to server '
                  'B: the client gets B\'s output and EOF, never an exit '
                  'status or CLOSE', _ft.loc(_fn),
                  _g2.describe_path(_w) if _w else None)
    rep.rule('C09.R20', 'client listeners for forwarded connections '
             '(SSHTCPClientListener / SSHUNIXClientListener.'
             'process_connection): the application\'s session factory is '
             'called before the channel is created and registered, so a '
             'factory that refuses with ChannelOpenError (the documented '
             'way) leaves no channel behind in conn._channels')
    _nl = 0
    for _q, _mk in (('listener.SSHTCPClientListener.process_connection',
                     'create_tcp_channel'),
                    ('listener.SSHUNIXClientListener.process_connection',
                     'create_unix_channel')):
        _fl = k.func(_q)
        _gl = k.cfg(_fl)
        _fac = [n.id for n, c in k.calls_named(_fl, '_session_factory',
                                               'self')]
        for _n, _c in k.calls_named(_fl, _mk):
            _nl += 1
            _w = _gl.path(_gl.entry, _n.id, blocked_nodes=_fac)
            rep.check(bool(_fac) and _w is None and _n.id not in _fac,
                      'C09.R20',
                      key(_fl, 'factory may refuse before a channel exists'),
                      'self._session_factory(...) on every path to the '
                      'channel creation',
                      'the channel is created and registered first: each '
                      'forwarded open the factory refuses leaves one entry '
                      'in conn._channels until the connection ends (5 '
                      'refused connects, 5 channels)', k.loc(_fl, _n))
    rep.floor('C09.R20', 'forwarded-open channel creations', _nl, 2)
    rep.rule('C09.R21', 'SSHConnection._report_global_response: whatever '
             'the reply (also none, for want_reply false), the next queued '
             'global request is serviced before the function returns - '
             'every path to the exit passes the test of '
             '_global_request_queue; otherwise a request queued behind an '
             'asynchronously handled no-reply request waits for ever on a '
             'live connection')
    _fg = k.func('connection.SSHConnection._report_global_response')
    _gg = k.cfg(_fg)
    _qt = [a.id for a in _gg.nodes if a.kind == 'atom' and
           dotted(a.ast) == 'self._global_request_queue']
    _w = _gg.path(_gg.entry, _gg.exit, blocked_nodes=_qt, follow_exc=False)
    rep.check(bool(_qt) and _w is None, 'C09.R21',
              key(_fg, 'queue serviced on every path'),
              'no return before the queue test',
              'tcpip-forward with want_reply=False handled by a coroutine, '
              'then forward_remote_port(): the second request stays at the '
              'head of the queue, the caller is released only by '
              'conn.close()', _fg.loc(_fg.node),
              _gg.describe_path(_w) if _w else None)
