#!/usr/bin/env python3
"""Confirm a seeded change produced by a sub-agent and record it.

usage: tools/seed.py <Cnn> <a|b> [--src /tmp/wt]

In a fresh scratch worktree of /repo (removed afterwards):
  1. unpatched: demo.py must exit 0
  2. patched:   package compiles, demo.py must exit non-zero, the baseline
                tests (BASELINE.json stable_pass) must still pass
  3. patched:   run /verif/check <Cnn> quick --root <scratch> and record
                whether (and which rule) reports it
Writes /verif/seeded/<Cnn>-<s>/{patch.diff,demo.py,notes.md,meta.json}.
"""
import json
import os
import shutil
import subprocess
import sys
import tempfile
import xml.etree.ElementTree as ET

VERIF = os.path.dirname(os.path.dirname(os.path.abspath(__file__)))
PY = '/venv/bin/python'
TESTFILES = ['tests/test_config.py', 'tests/test_agent.py',
             'tests/test_known_hosts.py', 'tests/test_kex.py',
             'tests/test_public_key.py', 'tests/test_auth.py',
             'tests/test_saslprep.py', 'tests/test_sshsig.py',
             'tests/test_auth_keys.py', 'tests/test_encryption.py',
             'tests/test_mac.py', 'tests/test_packet.py',
             'tests/test_sftp.py', 'tests/test_asn1.py',
             'tests/test_compression.py']


def sh(cmd, cwd=None, env=None, timeout=1200):
    p = subprocess.run(cmd, shell=True, cwd=cwd, env=env, timeout=timeout,
                       stdout=subprocess.PIPE, stderr=subprocess.STDOUT,
                       text=True)
    return p.returncode, p.stdout


def run_demo(tree, demo):
    env = dict(os.environ, PYTHONPATH=tree, PYTHONDONTWRITEBYTECODE='1')
    try:
        rc, out = sh(f'{PY} {demo}', cwd=tree, env=env, timeout=180)
    except subprocess.TimeoutExpired:
        return 124, 'TIMEOUT'
    return rc, out[-1500:]


def run_tests(tree):
    xml = os.path.join(tree, '_junit.xml')
    env = dict(os.environ, PYTHONPATH=tree, PYTHONDONTWRITEBYTECODE='1')
    sh(f'{PY} -m pytest -q -p no:cacheprovider --timeout=900 '
       f'--continue-on-collection-errors -n 8 --junitxml={xml} ' +
       ' '.join(TESTFILES), cwd=tree, env=env, timeout=1500)
    passed = set()
    for tc in ET.parse(xml).getroot().iter('testcase'):
        if not list(tc):
            passed.add(f'{tc.get("classname")}::{tc.get("name")}')
        elif all(ch.tag in ('system-out', 'system-err', 'properties')
                 for ch in tc):
            passed.add(f'{tc.get("classname")}::{tc.get("name")}')
    os.remove(xml)
    return passed


def main():
    prop, s = sys.argv[1].upper(), sys.argv[2]
    src_root = '/tmp/wt'
    if '--src' in sys.argv:
        src_root = sys.argv[sys.argv.index('--src') + 1]
    src = os.path.join(src_root, prop, '_seed', s)
    name = f'{prop}-{s}'
    if len(sys.argv) > 3 and not sys.argv[3].startswith('--'):
        name = sys.argv[3]
    dst = os.path.join(VERIF, 'seeded', name)
    os.makedirs(dst, exist_ok=True)
    for f in ('patch.diff', 'demo.py', 'notes.md'):
        if os.path.exists(os.path.join(src, f)):
            shutil.copy(os.path.join(src, f), os.path.join(dst, f))
    base = json.load(open('/root/.vp/BASELINE.json'))['stable_pass']
    scratch = tempfile.mkdtemp(prefix=f'sv-{name}-', dir='/tmp')
    os.rmdir(scratch)
    meta = {'property': prop, 'seed': s, 'ran': []}
    prev = {}
    if os.path.exists(os.path.join(dst, 'meta.json')):
        prev = json.load(open(os.path.join(dst, 'meta.json')))
    # --verif DIR: run the checks of a frozen snapshot of /verif (a git
    # worktree at the commit the round started from); --base REV: the /repo
    # revision the agents worked on.  Together they keep a first run blind
    # while /verif and /repo move on.
    checks = VERIF
    if '--verif' in sys.argv:
        checks = sys.argv[sys.argv.index('--verif') + 1]
    base_rev = 'HEAD'
    if '--base' in sys.argv:
        base_rev = sys.argv[sys.argv.index('--base') + 1]
    meta['checks_from'] = checks if checks != VERIF else 'working tree'
    if '--round' in sys.argv:
        meta['round'] = int(sys.argv[sys.argv.index('--round') + 1])
    elif 'round' in prev:
        meta['round'] = prev['round']
    try:
        rc, out = sh(f'git -C /repo worktree add --detach {scratch} '
                     f'{base_rev} -q')
        meta['repo_head'] = sh(f'git -C /repo rev-parse --short '
                               f'{base_rev}')[1].strip()
        demo = os.path.join(dst, 'demo.py')
        rc0, out0 = run_demo(scratch, demo)
        meta['demo_unpatched_rc'] = rc0
        meta['ran'].append(f'PYTHONPATH=<scratch> {PY} demo.py  (unpatched) '
                           f'-> rc {rc0}')
        rc, out = sh(f'git apply {os.path.join(dst, "patch.diff")}',
                     cwd=scratch)
        meta['patch_applies'] = rc == 0
        if rc != 0:
            meta['apply_error'] = out[-400:]
        else:
            rcc, outc = sh(f'{PY} -m compileall -q asyncssh', cwd=scratch)
            meta['compiles'] = rcc == 0
            rc1, out1 = run_demo(scratch, demo)
            meta['demo_patched_rc'] = rc1
            meta['demo_patched_tail'] = out1[-600:]
            meta['ran'].append(f'git apply patch.diff; {PY} demo.py '
                               f'-> rc {rc1}')
            if '--fast' in sys.argv and prev.get('baseline_tests_still_pass'):
                # re-confirmation after a repair of /repo: the patch is the
                # same one whose baseline run is on record; only the parts
                # that can change with the tree are run again
                meta['baseline_tests_still_pass'] = True
                meta['baseline_missing'] = []
                meta['baseline_carried_from'] = prev.get(
                    'baseline_carried_from', prev.get('repo_head'))
                meta['ran'].append('baseline run carried over from '
                                   f'{meta["baseline_carried_from"]}')
            else:
                passed = run_tests(scratch)
                missing = sorted(set(base) - passed)
                meta['baseline_tests_still_pass'] = not missing
                meta['baseline_missing'] = missing[:10]
                meta['ran'].append('pytest (15 baseline test files, -n 8): '
                                   f'{len(passed)} passed, '
                                   f'{len(missing)} of 161 baseline missing')
            rck, outk = sh(f'{checks}/check {prop} quick --no-evidence '
                           f'--root {scratch}')
            meta['check_rc'] = rck
            rules = []
            for ln in outk.splitlines():
                if ln.strip().startswith('rule='):
                    rules.append(ln.strip())
            meta['check_reports'] = rules[:8]
            meta['ran'].append(f'/verif/check {prop} quick --root <scratch> '
                               f'-> rc {rck}')
            # other properties that may also see it
            others = {}
            if rck != 1:
                for p in sorted(os.listdir(os.path.join(checks, 'sa', 'props'))):
                    if p.startswith('c') and p[1:3].isdigit() and \
                            p.endswith('.py'):
                        pid = p[:3].upper()
                        if pid == prop:
                            continue
                        r, o = sh(f'{checks}/check {pid} quick --no-evidence '
                                  f'--root {scratch}')
                        if r == 1:
                            others[pid] = [l.strip() for l in o.splitlines()
                                           if l.strip().startswith('rule=')][:3]
            meta['other_checks_reporting'] = others
        meta['confirmed'] = bool(
            meta.get('patch_applies') and meta.get('compiles') and
            meta['demo_unpatched_rc'] == 0 and
            meta.get('demo_patched_rc', 0) != 0 and
            meta.get('baseline_tests_still_pass'))
        meta['detected'] = meta.get('check_rc') == 1
        # verdict of the very first run against this seed, before any
        # strengthening of the checks; never overwritten afterwards
        meta['first_detected'] = prev.get('first_detected',
                                          meta['detected'])
        meta['first_other'] = prev.get(
            'first_other', sorted(meta.get('other_checks_reporting', {})))
    finally:
        sh(f'git -C /repo worktree remove --force {scratch}')
        shutil.rmtree(scratch, ignore_errors=True)
    notes = os.path.join(dst, 'notes.md')
    if os.path.exists(notes):
        meta['needs_to_manifest'] = open(notes).read()[:1500]
    with open(os.path.join(dst, 'meta.json'), 'w') as f:
        json.dump(meta, f, indent=1)
    print(name, 'confirmed=', meta['confirmed'], 'detected=', meta['detected'],
          meta.get('check_reports', [])[:2], meta.get('other_checks_reporting'))


if __name__ == '__main__':
    main()
