#!/usr/bin/env python3
"""Regression net for fix: commits, wider than the 161 baseline tests: runs
the upstream test files that only fail here for lack of bcrypt, with the
stand-in of tools/stubs, on a tree, and prints the set of non-passing tests
so that two trees can be compared.

usage: tools/wide_tests.py <tree> [out.json]
"""
import json
import os
import subprocess
import sys
import xml.etree.ElementTree as ET

tree = sys.argv[1]
out = sys.argv[2] if len(sys.argv) > 2 else None
here = os.path.dirname(os.path.abspath(__file__))
files = ['tests/test_connection.py', 'tests/test_connection_auth.py',
         'tests/test_channel.py', 'tests/test_stream.py',
         'tests/test_process.py', 'tests/test_sftp.py',
         'tests/test_forward.py', 'tests/test_editor.py',
         'tests/test_logging.py', 'tests/test_agent.py',
         'tests/test_known_hosts.py', 'tests/test_auth_keys.py',
         'tests/test_config.py', 'tests/test_public_key.py',
         'tests/test_auth.py', 'tests/test_kex.py', 'tests/test_sshsig.py',
         'tests/test_tuntap.py', 'tests/test_subprocess.py',
         'tests/test_x11.py']
files = [f for f in files if os.path.exists(os.path.join(tree, f))]
xml = os.path.join(tree, '_wide.xml')
env = dict(os.environ, PYTHONDONTWRITEBYTECODE='1',
           PYTHONPATH=tree + os.pathsep + os.path.join(here, 'stubs'))
subprocess.run(['/venv/bin/python', '-m', 'pytest', '-q', '-p',
                'no:cacheprovider', '--timeout=900',
                '--continue-on-collection-errors', '-n', '12',
                f'--junitxml={xml}'] + files, cwd=tree, env=env,
               stdout=subprocess.DEVNULL, stderr=subprocess.DEVNULL)
passed, other = set(), set()
for tc in ET.parse(xml).getroot().iter('testcase'):
    name = f'{tc.get("classname")}::{tc.get("name")}'
    if any(ch.tag in ('failure', 'error') for ch in tc):
        other.add(name)
    elif any(ch.tag == 'skipped' for ch in tc):
        pass
    else:
        passed.add(name)
os.remove(xml)
print(f'{len(passed)} passed, {len(other)} failed/errored')
if out:
    json.dump({'passed': sorted(passed), 'other': sorted(other)},
              open(out, 'w'))
