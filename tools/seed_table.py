#!/usr/bin/env python3
"""Print the markdown table of confirmed seeded changes from seeded/*/meta.json."""
import json, glob, os
rows = []
for f in sorted(glob.glob(os.path.join(os.path.dirname(os.path.dirname(os.path.abspath(__file__))), 'seeded', '*', 'meta.json'))):
    m = json.load(open(f))
    name = os.path.basename(os.path.dirname(f))
    rules = []
    for r in m.get('check_reports', []):
        rr = r.split()[0].replace('rule=', '')
        if rr not in rules:
            rules.append(rr)
    others = m.get('other_checks_reporting') or {}
    for p, rs in others.items():
        for r in rs:
            rr = r.split()[0].replace('rule=', '')
            if rr not in rules:
                rules.append(rr + ' (via ' + p + ')')
    notes = (m.get('needs_to_manifest') or '').strip().splitlines()
    first = next((l.strip('# ').strip() for l in notes if l.strip()), '')
    rnd = str(m.get('round', 1))
    fd = m.get('first_detected')
    blind = '' if rnd == '1' else ('yes' if fd else 'no')
    rows.append((name, rnd, 'yes' if m.get('confirmed') else 'NO', blind,
                 ', '.join(rules) if rules else ('— (missed)' if not m.get('detected') else ''),
                 first[:110]))
print('| seed | round | confirmed | reported on first (blind) run | reported by (now) | what it is |')
print('|---|---|---|---|---|---|')
for r in rows:
    print('| ' + ' | '.join(r) + ' |')
