#!/usr/bin/env python3
"""False-alarm probe: every check must stay silent on a copy of the package
in which every module was re-printed by ast.unparse (comments gone, line
breaks, quoting and parenthesisation changed, line numbers all different).
A rule keyed on text, position or comments fires here.

usage: tools/reformat_check.py [repo-root]      (scratch copy is removed)
"""
import ast
import os
import shutil
import subprocess
import sys
import tempfile

root = sys.argv[1] if len(sys.argv) > 1 else '/repo'
verif = os.path.dirname(os.path.dirname(os.path.abspath(__file__)))
tmp = tempfile.mkdtemp(prefix='fmt-')
try:
    shutil.copytree(os.path.join(root, 'asyncssh'),
                    os.path.join(tmp, 'asyncssh'))
    n = 0
    for dp, _, fns in os.walk(os.path.join(tmp, 'asyncssh')):
        for f in fns:
            if f.endswith('.py'):
                p = os.path.join(dp, f)
                with open(p, encoding='utf-8') as fh:
                    src = fh.read()
                with open(p, 'w', encoding='utf-8') as fh:
                    fh.write(ast.unparse(ast.parse(src)) + '\n')
                n += 1
    out = subprocess.run([os.path.join(verif, 'check'), 'all', 'quick',
                          '--no-evidence', '--root', tmp],
                         stdout=subprocess.PIPE, stderr=subprocess.STDOUT,
                         text=True).stdout
    bad = [l for l in out.splitlines()
           if l.startswith(('VIOLATION', 'ANALYSIS-ERROR'))]
    print(f'reformatted {n} modules; '
          f'{sum(1 for l in out.splitlines() if " quick: " in l)} checks run; '
          f'{len(bad)} reports')
    for l in bad[:20]:
        print('  ', l[:300])
    sys.exit(1 if bad else 0)
finally:
    shutil.rmtree(tmp, ignore_errors=True)
