#!/usr/bin/env python3
"""Run the baseline test files on a tree and compare with BASELINE.json."""
import json, os, subprocess, sys, xml.etree.ElementTree as ET
sys.path.insert(0, os.path.dirname(os.path.abspath(__file__)))
from seed import run_tests
tree = sys.argv[1] if len(sys.argv) > 1 else '/repo'
base = set(json.load(open('/root/.vp/BASELINE.json'))['stable_pass'])
passed = run_tests(tree)
missing = sorted(base - passed)
print(f'{len(passed)} passed; baseline {len(base)}; missing {len(missing)}')
for m in missing[:20]:
    print('  MISSING', m)
sys.exit(1 if missing else 0)
