#!/usr/bin/env python3
"""False-alarm probe: every check must stay silent on a copy of the package
in which the plain local variables of every function were renamed
consistently (x -> x_rn).  Behaviour is unchanged; a rule keyed on what a
local happens to be called fires here.

Renamed: names a function binds only through Name targets (assignment, for,
with, walrus, comprehension targets) and that are not parameters, not declared
global / nonlocal, not bound by import / except / match / def / class inside
the function, and not shadowed by a parameter of a nested function.  All
Name nodes with that identifier inside the function (nested scopes included,
they see the same variable) are renamed.

usage: tools/rename_check.py [repo-root] [--keep DIR] [--only Cnn]
"""
import ast
import os
import shutil
import subprocess
import sys
import tempfile

SUFFIX = '_rn'


def NEW(name):
    # `_` would become a dunder-prefixed name, which no tool here treats as
    # an ordinary local
    return (name.strip('_') or 'ign') + SUFFIX if name.startswith('__') \
        or name == '_' else name + SUFFIX


def _params(fn):
    a = fn.args
    out = {x.arg for x in a.posonlyargs + a.args + a.kwonlyargs}
    if a.vararg:
        out.add(a.vararg.arg)
    if a.kwarg:
        out.add(a.kwarg.arg)
    return out


FN = (ast.FunctionDef, ast.AsyncFunctionDef, ast.Lambda)


def rename_function(fn):
    """rename the plain locals of one outermost function; return count"""
    stores, blocked = set(), set(_params(fn))
    for x in ast.walk(fn):
        if isinstance(x, ast.Name) and isinstance(x.ctx, (ast.Store, ast.Del)):
            stores.add(x.id)
        elif isinstance(x, (ast.Global, ast.Nonlocal)):
            blocked |= set(x.names)
        elif isinstance(x, ast.alias):
            blocked.add((x.asname or x.name).split('.')[0])
        elif isinstance(x, ast.ExceptHandler) and x.name:
            blocked.add(x.name)
        elif isinstance(x, (ast.MatchAs, ast.MatchStar)) and x.name:
            blocked.add(x.name)
        elif isinstance(x, ast.MatchMapping) and x.rest:
            blocked.add(x.rest)
        elif isinstance(x, (ast.FunctionDef, ast.AsyncFunctionDef,
                            ast.ClassDef)) and x is not fn:
            blocked.add(x.name)
        if isinstance(x, FN) and x is not fn:
            blocked |= _params(x)
        if isinstance(x, ast.ClassDef):
            # class bodies are their own scope: leave anything they bind
            for y in ast.walk(x):
                if isinstance(y, ast.Name) and isinstance(y.ctx, ast.Store):
                    blocked.add(y.id)
    todo = {n for n in stores - blocked if not n.startswith('__')}
    # calls to locals() / vars() / eval make names observable: skip function
    for x in ast.walk(fn):
        if isinstance(x, ast.Call) and isinstance(x.func, ast.Name) and \
                x.func.id in ('locals', 'vars', 'eval', 'exec'):
            return 0
    for x in ast.walk(fn):
        if isinstance(x, ast.Name) and x.id in todo:
            x.id = NEW(x.id)
    return len(todo)


def outermost_functions(tree):
    out = []

    def rec(node):
        for ch in ast.iter_child_nodes(node):
            if isinstance(ch, (ast.FunctionDef, ast.AsyncFunctionDef)):
                out.append(ch)
            else:
                rec(ch)
    rec(tree)
    return out


def main():
    args = sys.argv[1:]
    keep = only = None
    if '--keep' in args:
        i = args.index('--keep')
        keep = args[i + 1]
        del args[i:i + 2]
    if '--only' in args:
        i = args.index('--only')
        only = args[i + 1]
        del args[i:i + 2]
    root = args[0] if args else '/repo'
    verif = os.path.dirname(os.path.dirname(os.path.abspath(__file__)))
    tmp = keep or tempfile.mkdtemp(prefix='rn-')
    try:
        dst = os.path.join(tmp, 'asyncssh')
        if os.path.exists(dst):
            shutil.rmtree(dst)
        shutil.copytree(os.path.join(root, 'asyncssh'), dst)
        nmod = nfn = nvar = 0
        for dp, _, fns in os.walk(dst):
            for f in fns:
                if not f.endswith('.py'):
                    continue
                p = os.path.join(dp, f)
                with open(p, encoding='utf-8') as fh:
                    tree = ast.parse(fh.read())
                for fn in outermost_functions(tree):
                    k = rename_function(fn)
                    nvar += k
                    nfn += bool(k)
                with open(p, 'w', encoding='utf-8') as fh:
                    fh.write(ast.unparse(tree) + '\n')
                compile(open(p, encoding='utf-8').read(), p, 'exec')
                nmod += 1
        out = subprocess.run([os.path.join(verif, 'check'), only or 'all',
                              'quick', '--no-evidence', '--root', tmp],
                             stdout=subprocess.PIPE, stderr=subprocess.STDOUT,
                             text=True).stdout
        bad = [l for l in out.splitlines()
               if l.startswith(('VIOLATION', 'ANALYSIS-ERROR'))]
        print(f'renamed {nvar} locals in {nfn} functions of {nmod} modules; '
              f'{sum(1 for l in out.splitlines() if " quick: " in l)} checks '
              f'run; {len(bad)} reports')
        for l in bad[:400]:
            print('  ', l[:260])
        sys.exit(1 if bad else 0)
    finally:
        if not keep:
            shutil.rmtree(tmp, ignore_errors=True)


if __name__ == '__main__':
    main()
