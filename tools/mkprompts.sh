# usage: WT=/tmp/wtN bash tools/mkprompts.sh   (creates one scratch worktree of /repo per claimed property with _PROMPT.txt for a seeding sub-agent)
export WT; mkdir -p ${WT}; cd ${WT}; python3 - <<'EOF'
import json,re,os,subprocess
props={}
for l in open('/verif/properties.jsonl'):
    p=json.loads(l); props[p['id']]=p
tmpl=open('/verif/seeded/C01-e/meta.json').read() and None
tmpl='''You are helping test a verification tool for the Python library asyncssh (ronf/asyncssh). You have your own scratch git worktree of the repository at WORKTREE (a detached checkout; the package is in WORKTREE/asyncssh, tests in WORKTREE/tests). Work ONLY inside that directory. Do not read or touch /repo, /verif or any other directory under /tmp. Do NOT use `git stash` (the stash is shared between worktrees of one repository and other people are working in sibling worktrees) and do NOT use `pkill`/`killall` (other people run the same commands); to undo a change use `git checkout -- asyncssh` or `git apply -R`. Python to use: /venv/bin/python (3.12; `cryptography` is installed; there is no network, no bcrypt, no pyOpenSSL). To run code against your worktree use `cd WORKTREE && PYTHONPATH=WORKTREE /venv/bin/python yourscript.py` (check `asyncssh.__file__` points into the worktree). Loopback TCP (127.0.0.1) works, so an in-process asyncssh client and server can talk to each other; generate keys with asyncssh.generate_private_key and do not use passphrase-encrypted OpenSSH keys (bcrypt is missing).

Here is a semantic property that asyncssh is supposed to satisfy:

----
PROPERTY
----

Your task: produce TWO independent, realistic source changes (bugs) to files under WORKTREE/asyncssh — call them seed `a` and seed `b`, touching different mechanisms/functions — each of which BREAKS this property, while:
  1. the package still imports/compiles, and
  2. the existing test suite still passes as before. Most of the suite cannot run in this sandbox; the tests that matter are the ones that pass on the unmodified tree. Get that reference list first with: `cd WORKTREE && /venv/bin/python -m pytest -q -p no:cacheprovider --timeout=900 --continue-on-collection-errors -n 8 tests/test_config.py tests/test_agent.py tests/test_known_hosts.py tests/test_kex.py tests/test_public_key.py tests/test_auth.py tests/test_saslprep.py tests/test_sshsig.py tests/test_auth_keys.py tests/test_encryption.py tests/test_mac.py tests/test_packet.py tests/test_sftp.py tests/test_asn1.py tests/test_compression.py 2>&1 | tail -5` (some tests in these files fail on the unmodified tree too — only tests that pass before must still pass after), and
  3. the bug is SUBTLE: it must need something specific to manifest — a particular interleaving/schedule, a fault or crash at a particular point, a multi-step sequence of operations, an unusual/hostile input or extreme value, a particular negotiated configuration, or two cooperating sites that each look fine alone. Do NOT produce a change that ordinary use (a plain connect + run a command + transfer a file) would expose at once. Prefer the kind of change a real developer could plausibly make in a refactor or 'optimisation' (a dropped or weakened check, a reordered pair of statements, a condition that became too permissive, an error path that now swallows/continues, state updated in the wrong place, a symmetric change on both writer and reader, one sibling implementation diverging from the others, an off-by-one in a bound).

IMPORTANT — diversity: earlier rounds already produced changes in the following places for this property; choose DIFFERENT functions (ideally different files) and a different kind of mistake:
EXCLUDED

For each seed write, under WORKTREE/_seed/a/ and WORKTREE/_seed/b/ respectively:
  - patch.diff : `git diff` of the change (only files under asyncssh/), applying cleanly to the unmodified worktree with `git apply`;
  - demo.py : a small self-contained program (run as `PYTHONPATH=<tree> /venv/bin/python demo.py`) that exercises the real asyncssh code and exits 0 when the property holds (unmodified tree) and exits non-zero (printing what went wrong) when the change is applied. It must finish in under 60 s and be deterministic. It may drive internal classes directly (e.g. feed crafted packets to a connection/channel object, use mock transports) if a full client/server session is impractical, but it must execute the actual modified code path;
  - notes.md : first line a one-sentence title of the bug; then which part of the property it breaks, which function(s) you changed and why it still passes the tests, and what exactly is needed for it to manifest.

Before finishing, VERIFY for each seed: with the patch applied demo.py fails and the reference tests still pass; with the patch reverted (`git checkout -- asyncssh`) demo.py passes. Leave the worktree with NO patch applied (clean `git status` apart from the untracked _seed directory and _PROMPT.txt). Clean up any temporary files you created outside the worktree. If, while probing, you notice behaviour of the UNMODIFIED tree that itself violates the property, describe it (with the exact input that shows it, and keep a small reproducer script under WORKTREE/_seed/unmodified/) at the end of your final message. In your final message give, per seed, a 3-line summary (changed function, how it breaks the property, how the demo shows it).
'''
for pid,p in props.items():
    if pid=='C19': continue
    wt=os.environ['WT']+'/'+pid
    subprocess.run(['git','-C','/repo','worktree','add','--detach',wt,'HEAD','-q'],check=True)
    ptxt='%s — %s\n\n%s\n\nQuantifier: %s'%(pid,p['title'],p['statement'],p['quantifier']['text'])
    lines=[]
    for d in sorted(os.listdir('/verif/seeded')):
        if d.split('-')[0]!=pid: continue
        t=open(f'/verif/seeded/{d}/notes.md').read().strip().splitlines()[0].lstrip('# ').strip()
        patch=open(f'/verif/seeded/{d}/patch.diff').read()
        files=set(re.findall(r'^\+\+\+ b/(\S+)', patch, re.M))
        fns=set(re.findall(r'^@@.*@@\s+(?:async )?def (\w+)', patch, re.M))
        lines.append('  - (%s%s) %s'%(', '.join(sorted(files)), (': '+', '.join(sorted(fns))) if fns else '', t[:220]))
    open(wt+'/_PROMPT.txt','w').write(tmpl.replace('WORKTREE',wt).replace('PROPERTY',ptxt).replace('EXCLUDED','\n'.join(lines)))
print(len(os.listdir(os.environ['WT'])))
EOF
cd /verif