"""Stand-in for the missing `bcrypt` package, used ONLY by tools/wide_tests.py
to let the upstream test servers start in this sandbox (they encrypt their
key files with the OpenSSH format, which needs bcrypt.kdf).  Not bcrypt: a
self-consistent PBKDF2 so that what the tests write they can read back."""
import hashlib


def kdf(password, salt, desired_key_bytes, rounds, ignore_few_rounds=False):
    if not password or not salt:
        raise ValueError('password and salt must not be empty')
    return hashlib.pbkdf2_hmac('sha512', bytes(password), bytes(salt),
                               max(1, int(rounds)), desired_key_bytes)
