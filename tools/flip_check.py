#!/usr/bin/env python3
"""False-alarm probe: every check must stay silent on a copy of the package
in which every single-operator comparison is written the other way round
(`a < b` -> `b > a`, `x == y` -> `y == x`).  A rule keyed on which side of a
test the limit stands fires here.

usage: tools/flip_check.py [repo-root]      (scratch copy is removed)
"""
import ast
import os
import shutil
import subprocess
import sys
import tempfile

MIRROR = {ast.Eq: ast.Eq, ast.NotEq: ast.NotEq, ast.Lt: ast.Gt,
          ast.Gt: ast.Lt, ast.LtE: ast.GtE, ast.GtE: ast.LtE}


class Flip(ast.NodeTransformer):
    n = 0

    def visit_Compare(self, node):
        self.generic_visit(node)
        if len(node.ops) == 1 and type(node.ops[0]) in MIRROR:
            Flip.n += 1
            return ast.Compare(left=node.comparators[0],
                               ops=[MIRROR[type(node.ops[0])]()],
                               comparators=[node.left])
        return node


root = sys.argv[1] if len(sys.argv) > 1 else '/repo'
verif = os.path.dirname(os.path.dirname(os.path.abspath(__file__)))
tmp = tempfile.mkdtemp(prefix='flip-')
try:
    dst = os.path.join(tmp, 'asyncssh')
    shutil.copytree(os.path.join(root, 'asyncssh'), dst)
    nmod = 0
    for dp, _, fns in os.walk(dst):
        for f in fns:
            if f.endswith('.py'):
                p = os.path.join(dp, f)
                with open(p, encoding='utf-8') as fh:
                    t = ast.parse(fh.read())
                t = ast.fix_missing_locations(Flip().visit(t))
                with open(p, 'w', encoding='utf-8') as fh:
                    fh.write(ast.unparse(t) + '\n')
                compile(open(p, encoding='utf-8').read(), p, 'exec')
                nmod += 1
    out = subprocess.run([os.path.join(verif, 'check'), 'all', 'quick',
                          '--no-evidence', '--root', tmp],
                         stdout=subprocess.PIPE, stderr=subprocess.STDOUT,
                         text=True).stdout
    bad = [l for l in out.splitlines()
           if l.startswith(('VIOLATION', 'ANALYSIS-ERROR'))]
    print(f'mirrored {Flip.n} comparisons in {nmod} modules; '
          f'{sum(1 for l in out.splitlines() if " quick: " in l)} checks run; '
          f'{len(bad)} reports')
    for l in bad[:40]:
        print('  ', l[:260])
    sys.exit(1 if bad else 0)
finally:
    shutil.rmtree(tmp, ignore_errors=True)
