#!/usr/bin/env python3
"""Regenerate sa/localnames.json, sa/compares.json and sa/iftests.json: per outermost function of the package, the
plain locals in order of first binding with a hash of the binding's shape
(see sa/alpha.py).  Run against the tree the rules were written for.

usage: tools/gen_localnames.py [repo-root]
"""
import ast
import json
import os
import sys

here = os.path.dirname(os.path.dirname(os.path.abspath(__file__)))
sys.path.insert(0, here)
from sa import alpha  # noqa: E402

root = sys.argv[1] if len(sys.argv) > 1 else '/repo'
out = {}
cmps = {}
ifs = {}
nf = nl = nc = ni = 0
for dp, dn, fns in os.walk(os.path.join(root, 'asyncssh')):
    dn[:] = sorted(d for d in dn if d != '__pycache__')
    for f in sorted(fns):
        if f.endswith('.py'):
            p = os.path.join(dp, f)
            rel = os.path.relpath(p, root)
            with open(p, encoding='utf-8') as fh:
                t = alpha.table_of(ast.parse(fh.read()))
            with open(p, encoding='utf-8') as fh:
                c = alpha.compares_of(ast.parse(fh.read()))
            with open(p, encoding='utf-8') as fh:
                i = alpha.iftests_of(ast.parse(fh.read()))
            if i:
                ifs[rel] = i
                ni += sum(len(v) for v in i.values())
            if c:
                cmps[rel] = c
                nc += sum(len(v) for v in c.values())
            if t:
                out[rel] = t
                nf += len(t)
                nl += sum(len(v) for v in t.values())
with open(alpha.TABLE, 'w', encoding='utf-8') as fh:
    json.dump(out, fh, indent=0, sort_keys=True)
    fh.write('\n')
with open(alpha.COMPARES, 'w', encoding='utf-8') as fh:
    json.dump(cmps, fh, indent=0, sort_keys=True)
    fh.write('\n')
with open(alpha.IFTESTS, 'w', encoding='utf-8') as fh:
    json.dump(ifs, fh, indent=0, sort_keys=True)
    fh.write('\n')
print(f'{ni} if/else tests; {nc} comparisons; {nl} locals of {nf} functions in {len(out)} modules')
