#!/usr/bin/env python3
"""Regenerate /verif/MANIFEST.json from sa/claims.py (run after editing)."""
import json
import os
import sys

HERE = os.path.dirname(os.path.dirname(os.path.abspath(__file__)))
sys.path.insert(0, HERE)
from sa.claims import CLAIMS, NOT_APPLICABLE  # noqa: E402

BASE = ('cd /repo && /venv/bin/python -m pytest -ra -q -p no:cacheprovider '
        '--timeout=900 --continue-on-collection-errors')

man = {
    'version': 1,
    'setup_cmd': 'cd /verif && ./check all quick --no-evidence >/dev/null 2>&1; true',
    'hooks': {
        'guard': 'RONF_ASYNCSSH_VERIF',
        'enable': 'none needed: every check reads /repo source with ast; '
                  'no instrumentation exists, the guard name is reserved',
        'baseline_off_cmd': BASE,
        'source_commits': [],
        'add_only': True,
    },
    'engines': [{
        'name': 'sa',
        'path': '/verif/sa',
        'serves_properties': sorted(CLAIMS),
        'kind_free_text': 'repository-specific static analysis over the '
        'Python ast: package index + class hierarchy + constant folding, '
        'statement CFG with short-circuit lowering and exception edges, '
        'reaching definitions / data dependence, guard-dominance and '
        'must-pass-through reachability queries, finite-domain abstract '
        'evaluation of decision chains, table and wire-schema extraction',
    }],
    'checks': [],
    'not_applicable': [{'property_id': p, 'reason': r}
                       for p, r in sorted(NOT_APPLICABLE.items())],
    'notes': 'All checks are static (source only). Exit 2 + ANALYSIS-ERROR '
             'means the checker could not evaluate an anchor (never a '
             'silent pass). See DESIGN.md.',
}
for pid in sorted(CLAIMS):
    c = CLAIMS[pid]
    man['checks'].append({
        'property_id': pid,
        'quick_cmd': f'./check {pid} quick',
        'thorough_cmd': f'./check {pid} thorough',
        'evidence_file': f'/verif/evidence/{pid}.json',
        'replay_cmd_template': './check ' + pid + ' quick --replay {path}',
        'engine': 'sa',
        'level_claimed': {
            'category': 'other',
            'text': c['text'],
            'design_ref': c.get('design_ref', f'DESIGN.md section 5, {pid}'),
        },
        'level_note': c['note'],
        'technique': c['technique'],
    })
with open(os.path.join(HERE, 'MANIFEST.json'), 'w') as f:
    json.dump(man, f, indent=1)
    f.write('\n')
print('claimed', sorted(CLAIMS), 'n/a', sorted(NOT_APPLICABLE))
