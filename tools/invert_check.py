#!/usr/bin/env python3
"""False-alarm probe: every check must stay silent on a copy of the package
in which every if / else (not elif chains) has its branches exchanged under
the negated test (`if c: A else: B` -> `if not c: B else: A`).

usage: tools/invert_check.py [repo-root]      (scratch copy is removed)
"""
import ast
import os
import shutil
import subprocess
import sys
import tempfile


class Invert(ast.NodeTransformer):
    n = 0

    def visit_If(self, node):
        self.generic_visit(node)
        if node.orelse and not (len(node.orelse) == 1 and
                                isinstance(node.orelse[0], ast.If)):
            Invert.n += 1
            t = node.test
            if isinstance(t, ast.UnaryOp) and isinstance(t.op, ast.Not):
                nt = t.operand
            else:
                nt = ast.UnaryOp(op=ast.Not(), operand=t)
            return ast.If(test=nt, body=node.orelse, orelse=node.body)
        return node


root = sys.argv[1] if len(sys.argv) > 1 else '/repo'
verif = os.path.dirname(os.path.dirname(os.path.abspath(__file__)))
tmp = tempfile.mkdtemp(prefix='inv-')
try:
    dst = os.path.join(tmp, 'asyncssh')
    shutil.copytree(os.path.join(root, 'asyncssh'), dst)
    nmod = 0
    for dp, _, fns in os.walk(dst):
        for f in fns:
            if f.endswith('.py'):
                p = os.path.join(dp, f)
                with open(p, encoding='utf-8') as fh:
                    t = ast.parse(fh.read())
                t = ast.fix_missing_locations(Invert().visit(t))
                with open(p, 'w', encoding='utf-8') as fh:
                    fh.write(ast.unparse(t) + '\n')
                compile(open(p, encoding='utf-8').read(), p, 'exec')
                nmod += 1
    out = subprocess.run([os.path.join(verif, 'check'), 'all', 'quick',
                          '--no-evidence', '--root', tmp],
                         stdout=subprocess.PIPE, stderr=subprocess.STDOUT,
                         text=True).stdout
    bad = [l for l in out.splitlines()
           if l.startswith(('VIOLATION', 'ANALYSIS-ERROR'))]
    print(f'turned {Invert.n} if/else statements in {nmod} modules; '
          f'{sum(1 for l in out.splitlines() if " quick: " in l)} checks run; '
          f'{len(bad)} reports')
    for l in bad[:40]:
        print('  ', l[:260])
    sys.exit(1 if bad else 0)
finally:
    shutil.rmtree(tmp, ignore_errors=True)
