#!/usr/bin/env python3
"""False-alarm probe: the three behaviour-preserving rewrites of
rename_check.py, flip_check.py and invert_check.py applied together (every
comparison mirrored, every if / else turned round, every plain local
renamed), so that the normalisations of sa/alpha.py are exercised where they
depend on each other.

usage: tools/combined_check.py [repo-root]      (scratch copy is removed)
"""
import ast
import importlib.util
import os
import shutil
import subprocess
import sys
import tempfile

here = os.path.dirname(os.path.abspath(__file__))
spec = importlib.util.spec_from_file_location(
    'rename_check', os.path.join(here, 'rename_check.py'))
rn = importlib.util.module_from_spec(spec)
spec.loader.exec_module(rn)

MIRROR = {ast.Eq: ast.Eq, ast.NotEq: ast.NotEq, ast.Lt: ast.Gt,
          ast.Gt: ast.Lt, ast.LtE: ast.GtE, ast.GtE: ast.LtE}


class Both(ast.NodeTransformer):
    def visit_Compare(self, node):
        self.generic_visit(node)
        if len(node.ops) == 1 and type(node.ops[0]) in MIRROR:
            return ast.Compare(left=node.comparators[0],
                               ops=[MIRROR[type(node.ops[0])]()],
                               comparators=[node.left])
        return node

    def visit_If(self, node):
        self.generic_visit(node)
        if node.orelse and not (len(node.orelse) == 1 and
                                isinstance(node.orelse[0], ast.If)):
            t = node.test
            if isinstance(t, ast.UnaryOp) and isinstance(t.op, ast.Not):
                nt = t.operand
            else:
                nt = ast.UnaryOp(op=ast.Not(), operand=t)
            return ast.If(test=nt, body=node.orelse, orelse=node.body)
        return node


root = sys.argv[1] if len(sys.argv) > 1 else '/repo'
verif = os.path.dirname(here)
tmp = tempfile.mkdtemp(prefix='comb-')
try:
    dst = os.path.join(tmp, 'asyncssh')
    shutil.copytree(os.path.join(root, 'asyncssh'), dst)
    nmod = 0
    for dp, _, fns in os.walk(dst):
        for f in fns:
            if f.endswith('.py'):
                p = os.path.join(dp, f)
                with open(p, encoding='utf-8') as fh:
                    t = ast.parse(fh.read())
                t = ast.fix_missing_locations(Both().visit(t))
                for fn in rn.outermost_functions(t):
                    rn.rename_function(fn)
                with open(p, 'w', encoding='utf-8') as fh:
                    fh.write(ast.unparse(t) + '\n')
                compile(open(p, encoding='utf-8').read(), p, 'exec')
                nmod += 1
    out = subprocess.run([os.path.join(verif, 'check'), 'all', 'quick',
                          '--no-evidence', '--root', tmp],
                         stdout=subprocess.PIPE, stderr=subprocess.STDOUT,
                         text=True).stdout
    bad = [l for l in out.splitlines()
           if l.startswith(('VIOLATION', 'ANALYSIS-ERROR'))]
    print(f'rewrote {nmod} modules (mirror + turn + rename); '
          f'{sum(1 for l in out.splitlines() if " quick: " in l)} checks run; '
          f'{len(bad)} reports')
    for l in bad[:40]:
        print('  ', l[:260])
    sys.exit(1 if bad else 0)
finally:
    shutil.rmtree(tmp, ignore_errors=True)
